#!/usr/bin/env python3
"""Developer probe: run N runs of a property profile in-process and print every
violation (all properties) with counts, plus op statistics."""
import sys, os, collections, json, time
sys.path.insert(0, os.path.dirname(os.path.dirname(os.path.abspath(__file__))))
from sim import core, main
core.use_repo()
prop = sys.argv[1]; n = int(sys.argv[2]); engine = sys.argv[3] if len(sys.argv) > 3 else main.PLAN[prop][0][0]
start = int(sys.argv[4]) if len(sys.argv) > 4 else 0
eng = main.engine_factory(engine)()
viol = collections.Counter(); ex = {}; stats = collections.Counter(); skipped = collections.Counter()
t0 = time.time(); steps = 0
for run in range(start, start + n):
    rng = core.make_rng(main.DEFAULT_SEED, prop, run)
    try:
        res = eng.generate(rng, prop, 'quick', run)
    except Exception as e:
        import traceback
        k = 'HARNESS ' + type(e).__name__ + ': ' + str(e)[:100]
        viol[k] += 1
        if k not in ex: ex[k] = (run, traceback.format_exc()[-1500:])
        continue
    stats.update(res.stats); steps += len(res.trace['ops'])
    if res.skipped: skipped[res.skipped] += 1
    for v in res.violations:
        k = f'{v.prop}/{v.clause}'
        viol[k] += 1
        if k not in ex: ex[k] = (run, v.step, v.msg, res.trace['ops'][v.step] if 0 <= v.step < len(res.trace['ops']) else None)
print(f'{n} runs, {steps} ops, {time.time()-t0:.1f}s  skipped={dict(skipped)}')
for k, c in viol.most_common():
    print(f'--- {c:4d} {k}')
    e = ex[k]
    for x in e: print('      ', (json.dumps(x, ensure_ascii=False, default=str) if not isinstance(x, str) else x)[:1500])
if '-s' in sys.argv:
    for k, v in sorted(stats.items()): print(f'   {k}: {v}')
