#!/bin/bash
# Re-runs, for every filed seeded change, the first check that caught it, against a scratch
# worktree with the patch applied (never touches /repo's working tree).  Prints one line each.
# usage: tools/regress_seeded.sh [workers] [name-glob]
cd "$(dirname "$0")/.." || exit 2
W=${1:-8}; GLOB=${2:-*}
fail=0
for d in seeded/$GLOB/; do
  name=$(basename "$d")
  if python3 -c "import json,sys;sys.exit(0 if json.load(open('$d/meta.json')).get('superseded_by_fix') else 1)"; then echo "$name skipped (neutralised by a later fix)"; continue; fi
  chks=$(python3 -c "import json;m=json.load(open('$d/meta.json'));print(' '.join(m['caught_by'] or [m['breaks_property']]))")
  wt=/tmp/seedreg-$name
  git -C /repo worktree remove --force "$wt" >/dev/null 2>&1
  git -C /repo worktree add -q --detach "$wt" HEAD || { echo "$name WORKTREE-FAILED"; fail=1; continue; }
  if ! git -C "$wt" apply "$PWD/$d/patch.diff" 2>/dev/null; then echo "$name PATCH-DOES-NOT-APPLY"; fail=1; git -C /repo worktree remove --force "$wt"; continue; fi
  got=""
  for chk in $chks; do
    out=$(VERIF_REPO=$wt ./check "$chk" --no-evidence --no-minimise --workers "$W" 2>&1); rc=$?
    if [ $rc -eq 1 ]; then got=$chk; break; fi
  done
  git -C /repo worktree remove --force "$wt" >/dev/null 2>&1
  if [ -n "$got" ]; then echo "$name caught by $got"; else echo "$name NOT CAUGHT by any of: $chks (last exit $rc)"; fail=1; fi
done
git -C /repo worktree prune
exit $fail
