#!/bin/bash
# usage: tools/soak.sh <first seed> <last seed> [workers] [props...]
# Runs every quick check under many VERIF_SEED values; prints only what is not OK.
cd "$(dirname "$0")/.." || exit 2
A=$1; B=$2; W=${3:-8}; shift 3
PROPS=${@:-C02 C03 C04 C05 C06 C07 C08 C09 C10 C11 C12 C13 C14 C16 C17 C18 C19 C20}
for s in $(seq $A $B); do
  for p in $PROPS; do
    out=$(VERIF_SEED=$s ./check $p --no-evidence --workers $W 2>&1); rc=$?
    if [ $rc -ne 0 ]; then echo "### seed=$s prop=$p exit=$rc"; echo "$out" | grep -v "^KNOWN-FINDING\|^check " | cut -c1-600 | head -12;
      for f in $(echo "$out" | grep -o 'replay=[^ ]*' | cut -d= -f2); do mkdir -p soak_replays; cp "$f" soak_replays/ 2>/dev/null; done
    else echo "ok seed=$s $p"; fi
  done
done
