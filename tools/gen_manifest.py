#!/usr/bin/env python3
"""Writes /verif/MANIFEST.json from the table below (kept in one place so the
manifest is always consistent with what ./check implements)."""
import json
import os
import sys

HERE = os.path.dirname(os.path.dirname(os.path.abspath(__file__)))

# id -> (engines, level, design_ref, text, note, technique)
CHECKS = {
    'C02': (['docsim'], 'exploration', 'DESIGN.md §6 C02, §3.5 R_text',
            'Seeded histories of token value / raw_text / comment-indent assignments (interleaved with structural edits, claims, spacing) on '
            'parsed documents at randomised load factors; after each assignment the store\'s identity list must be unchanged, exactly that '
            'token\'s text changed, and the printed text equal the old text with the span replaced.',
            'R_text identity diff (60 lines) is trusted; values come from per-terminal generators (docgen.value_for).',
            'deterministic simulation: seeded edit histories, identity diff of the token list after every step'),
    'C03': (['docsim'], 'exploration', 'DESIGN.md §6 C03, §3.5 R_text windows',
            'Seeded histories of every settable raw/value property and every MutableSequence/MutableMapping operation (index family incl. '
            'negative and out-of-range, slices, extended slices, batches 0-3) discovered generically from the descriptors; after each edit the '
            'removed/added token windows must consist of the affected child plus separators, lie inside the parent span, and every sibling must '
            'keep identities and text.',
            'Applies only while no unowned comment is in the store (statement: "normally parsed document").',
            'deterministic simulation: seeded edit histories, window oracle on the identity diff'),
    'C04': (['docsim'], 'exploration', 'DESIGN.md §6 C04',
            'Histories of reads of every public attribute and view, ==, hash, repr, print, deep copies, handle acquisition and every claim / '
            'unclaim / auto-claim call, interleaved with edits so caches are hot and cold; after each such call every store must print the same '
            'text and hold the same visible tokens in the same order.',
            'Zero-width placeholders may move (that is how claiming works).',
            'deterministic simulation: seeded non-edit call sequences, text/visible-token equality after every step'),
    'C05': (['docsim', 'exprsim'], 'exploration', 'DESIGN.md §6 C05, §4 I-tree',
            'Full operation mix with a bias towards editing through recently inserted children; after every step the generic walker (children '
            'enumerated from field descriptors) checks store membership, span nesting/order, first/last token coincidence, leaf uniqueness and that '
            'every significant token is a leaf, on the document and on every popped / copied / constructed node (self-contained when it enters the pool).',
            'Walker trusts the declared field descriptors; unknown RawTreeModel subclasses are a harness error.',
            'deterministic simulation: seeded edit histories, structural invariant I-tree after every step'),
    'C06': (['docsim'], 'exploration', 'DESIGN.md §6 C06',
            'Syntax-preserving operation mix only (no raw_text/spacing/indent overrides, in-domain values, donors with fitting indent); after every '
            'edit the printed document is re-parsed by the real parser and a structural projection (classes, slots, order, leaf text and value; '
            'comment ownership, zero-width marks, inline-comment trailing blanks excluded) must equal that of the in-memory model.',
            'The documented custom "x" 1 -2 ambiguity is waived when present in the model; KF2 (number before ",<digit>") is a listed finding.',
            'deterministic simulation: seeded syntax-safe histories, re-parse + projection equality after every step'),
    'C07': (['storesim', 'docsim'], 'exploration', 'DESIGN.md §6 C07, §4 I-store',
            'Seeded operation histories on the real TokenStore against a Python list with the load factor randomised per run (2..1000) so that block '
            'split / merge / rebalance paths run; every read API is compared with the list after every operation; docsim adds realistic splice '
            'patterns on documents of up to 400 directives.',
            'Trusts the list reference model and that patching token_store._LOAD_FACTOR and its derived globals equals shipping another constant.',
            'deterministic simulation: seeded op histories vs list reference model, load-factor knob randomised'),
    'C08': (['storesim', 'docsim', 'edsim'], 'exploration', 'DESIGN.md §6 C08, §4 I-store',
            'Same histories as C07 plus value/raw_text updates through real token models that add and remove line breaks; after every operation '
            'get_position/get_index of every token is compared with the (line, column) computed from the concatenated text; edsim checks the line '
            'number in the editor\'s include-error message against the text.',
            'Positions follow the store convention (0-based line and column, a line ends at \\n).',
            'deterministic simulation: seeded op histories, positions recomputed from text after every step'),
    'C09': (['docsim'], 'exploration', 'DESIGN.md §6 C09, §3.5 R_cost / R_txn',
            'Value-level assignments (incl. None) on every value property discovered from the descriptors, with sequences of cost and payee/narration '
            'assignments from every initial form; read-back, every other value property of the model unchanged (aliases and documented groups aside), '
            'record-of-optionals reference for the cost and transaction groups incl. the two documented rejections, and survival of print + re-parse.',
            'Cost reference covers the initial forms listed in the statement (one of number/currency/amount/compound amount plus date/label/merge).',
            'deterministic simulation: seeded assignment histories vs record-of-optionals reference models'),
    'C10': (['docsim'], 'exploration', 'DESIGN.md §6 C10, §4 I-views',
            'Views are obtained before and after mutations and retained as stale handles; mutations then go through raw lists, filtered views, string '
            'views and mapping views in seeded interleavings with the full index family; after every step every retained and every freshly obtained '
            'view must equal the live raw list filtered/converted now, and the view the operation went through must match a Python list / first-match '
            'ordered mapping given the same call (same exception class where a list raises).',
            'Length-changing slice assignment on filtered views is the documented refusal, not list semantics.',
            'deterministic simulation: aliasing-handle schedules vs Python list/dict reference'),
    'C11': (['docsim'], 'exploration', 'DESIGN.md §6 C11, §4 I-iso',
            'Deep copies of models at every depth in both attribution modes; at copy time equality (both ways), printed text, token disjointness, '
            'tree shape and I-tree of the copy; afterwards edit histories on either side with the invariant that a store the operation did not '
            'address is identical before and after.',
            'none beyond the shared machinery',
            'deterministic simulation: seeded copy-then-edit histories with store isolation invariant'),
    'C12': (['toksim'], 'exploration', 'DESIGN.md §6 C12',
            'Per token class a history of value / raw_text / indent assignments starting from from_value or from_raw_text, free-standing or attached in '
            'a store; after every step the raw text is re-lexed by the real lexer (one token, same class, same value), from_raw_text keeps it verbatim '
            'and agrees on the value, and an attached token keeps the store caches right.',
            'Domains: any Unicode for strings; comment lines without CR/LF inside; inline comments without leading blank (the parser strips them by '
            'design); dates year 1..9999; non-negative finite decimals. INDENT cannot be lexed in isolation (look-ahead) and is checked for value/raw agreement only.',
            'deterministic simulation: seeded assignment histories re-lexed by the real lexer after every step'),
    'C13': (['exprsim'], 'exploration', 'DESIGN.md §6 C13',
            'Chains of + - * / and unary operators in plain, reflected and in-place form with int, Decimal, free and document-attached operands; value '
            'against Decimal arithmetic on the operand values taken before the call, printed text evaluated by an independent recursive-descent '
            'evaluator and re-parsed, operands and owning documents unchanged for non-in-place forms, in-place on an attached expression rewrites '
            'exactly that span.',
            'Zero divisors are not generated; Decimal default context.',
            'deterministic simulation: seeded operator chains vs independent evaluator'),
    'C14': (['docsim'], 'exploration', 'DESIGN.md §6 C14, §4 I-own, R_attr',
            'Comment-dense layouts; at parse time: no unowned comment, same attribution by parse and by a later auto_claim_comments(), idempotence, and '
            'the documented rules evaluated independently on line geometry (R_attr); then sequences of claim / unclaim / subset claim / auto-claim '
            'interleaved with edits with the ownership invariant (<= 1 owner, claimed flag says which) after every step and unclaim+claim restoring '
            'the attribution.',
            'KF1 (comment after the last meta item of a posting-less transaction) is a listed finding.',
            'deterministic simulation: seeded claim/unclaim histories with ownership invariant and rule reference'),
    'C16': (['edsim'], 'fault_enumeration', 'DESIGN.md §6 C16, §5',
            'Editor over a real directory tree on tmpfs with every Python-level I/O call interposed: seeded include graphs (literal, ./, d/.., absolute, '
            'globs, **, cycles, diamonds, hidden files), LF/CRLF/mixed contents, five path spellings x str/Path x cwd, glob results permuted; scripted '
            'body (edits, reads, pop, add, round-trip no-ops) and, enumerated for every k, a raise before step k. Oracle: visited set = reference '
            'closure, read once, edited files hold exactly the shadow session\'s print (raw bytes, no newline translation), unedited files never '
            'opened for writing, popped deleted, added created, nothing else touched; a raising body leaves everything byte-identical.',
            'OSError / torn writes are not injected: the statement says nothing about a half-failed write phase. Interposer sees Python-level calls only.',
            'deterministic simulation with fault enumeration: interposed file system, raise injected at every body step'),
    'C17': (['docsim'], 'exploration', 'DESIGN.md §6 C17',
            'spacing_before/after and raw_spacing_* read and written on every model and token that is not the whole document, both sides, strings over '
            '{space, tab, LF, CRLF}, interleaved with claims and edits; read: contiguous Whitespace/Newline run separated from the model only by '
            'zero-width tokens and not cut short before further spacing; write: only Whitespace/Newline tokens appear/disappear, non-blank text and '
            'order unchanged, length changes by the difference, non-empty assignments read back.',
            'Read oracle is conservative where the documentation is silent.',
            'deterministic simulation: seeded spacing read/write histories'),
    'C18': (['docsim'], 'exploration', 'DESIGN.md §6 C18',
            'meta[k] = v for new keys, comment setters and raw insertions after histories that clear meta, change indent_by and append oddly indented '
            'items, on entries and nested postings: the created item takes the siblings\' shared indent, else parent indent + indent_by; created '
            'comments take the owner\'s indent; raw donors keep theirs verbatim; no existing line\'s indent changes.',
            'When siblings disagree any sibling indent is accepted (unspecified).',
            'deterministic simulation: seeded histories shaping the rule\'s inputs, indent oracle on every creation'),
    'C19': (['docsim', 'storesim', 'exprsim'], 'fault_enumeration', 'DESIGN.md §5, §6 C19',
            'At seeded points of an edit history all refusals applicable to the state are enumerated: donors that live elsewhere at each batch '
            'position of every setter/sequence/mapping route (must raise), bad indices, missing keys, size mismatches, unfindable comments, illegal '
            'cost combinations, unrepresentable raw text, attached arithmetic operands; every call that raises must leave every store, every tree '
            'fingerprint (incl. claimed flags) and all invariants exactly as before, for the target and the donor homes.',
            'Exceptions injected inside the library and type-invalid arguments are out of scope (no property promises anything about them).',
            'deterministic simulation with fault enumeration: refusal catalogue enumerated at seeded history points, no-op oracle'),
    'C20': (['docsim'], 'exploration', 'DESIGN.md §6 C20',
            'Before every operation a deep copy S of the document is kept; afterwards root == S must hold exactly when printed text and structural '
            'fingerprint are equal, in both directions; copies equal their originals; states with re-owned comments and moved placeholders are '
            'reached by histories.',
            'Pairs differing only in indent_by are not judged.',
            'deterministic simulation: seeded histories producing systematically perturbed model pairs'),
}

NOT_BUILT = 'check not built yet in this session (see DESIGN.md for the planned engine)'

NOT_APPLICABLE = {
    'C01': 'pure function of one input (text, target, flag) evaluated once: no history, schedule, fault or knob for a '
           'simulator to decide; seeded text generation would be input fuzzing in costume (DESIGN.md §6 C01)',
    'C15': 'pure function of constructor arguments evaluated once; no history, fault or schedule (DESIGN.md §6 C15); '
           'constructed donors are exercised incidentally inside insertion histories of C05/C06',
}

ENGINES = {
    'storesim': ('sim/storesim.py', 'bare TokenStore vs Python list, load-factor knob, refusal faults'),
    'docsim': ('sim/docsim.py', 'parsed document session + pool of detached nodes + retained view handles; '
                                'reference models R_text/R_seq/R_map/R_cost, invariants I-store/I-tree/I-views/I-own/I-iso'),
    'toksim': ('sim/toksim.py', 'token models under value/raw_text/indent assignment histories, re-lexed by the real lexer'),
    'exprsim': ('sim/exprsim.py', 'NumberExpr operator chains (free and attached operands) vs independent evaluator'),
    'edsim': ('sim/edsim.py', 'Editor over an interposed real directory tree; glob order, path spelling, CRLF, raising bodies'),
}

ALL = [f'C{i:02d}' for i in range(1, 21)]


def main() -> int:
    checks = []
    serves = {k: [] for k in ENGINES}
    for pid in ALL:
        if pid not in CHECKS:
            continue
        engines, level, ref, text, note, technique = CHECKS[pid]
        for e in engines:
            serves[e].append(pid)
        checks.append({
            'property_id': pid,
            'quick_cmd': f'./check {pid} --tier quick',
            'thorough_cmd': f'./check {pid} --tier thorough',
            'evidence_file': f'evidence/{pid}.json',
            'replay_cmd_template': f'./check {pid} --replay {{path}}',
            'engine': '+'.join(engines),
            'level_claimed': {'category': level, 'text': text, 'design_ref': ref},
            'level_note': note,
            'technique': technique,
        })
    na = []
    for pid in ALL:
        if pid in CHECKS:
            continue
        na.append({'property_id': pid, 'reason': NOT_APPLICABLE.get(pid, NOT_BUILT)})
    manifest = {
        'version': 1,
        'setup_cmd': './setup.sh',
        'hooks': {
            'guard': 'AUTOBEAN_REFACTOR_VERIF',
            'enable': 'no source hook exists in /repo: ./check exports AUTOBEAN_REFACTOR_VERIF=1 for symmetry only; '
                      'seams are module globals and module attributes patched from /verif at run time',
            'baseline_off_cmd': 'cd /repo && /venv/bin/python -m pytest -ra -q -p no:cacheprovider --timeout=900 '
                                '--continue-on-collection-errors',
            'source_commits': [],
            'add_only': True,
        },
        'engines': [
            {'name': k, 'path': v[0], 'serves_properties': serves[k], 'kind_free_text': v[1]}
            for k, v in ENGINES.items() if serves[k]
        ],
        'checks': checks,
        'not_applicable': na,
        'notes': 'Technique family: deterministic simulation with fault injection (seeded search over operation '
                 'histories, aliasing-handle schedules, configuration knobs and injected refusals / raising bodies). '
                 'Genuine defects found on the pinned tree are repaired by fix: commits in /repo and listed in '
                 'known_findings.json; see DESIGN.md §8.',
    }
    with open(os.path.join(HERE, 'MANIFEST.json'), 'w') as f:
        json.dump(manifest, f, indent=1)
        f.write('\n')
    return 0


if __name__ == '__main__':
    sys.exit(main())
