#!/usr/bin/env python3
"""Writes /verif/MANIFEST.json from the table below (kept in one place so the
manifest is always consistent with what ./check implements)."""
import json
import os
import sys

HERE = os.path.dirname(os.path.dirname(os.path.abspath(__file__)))

# id -> (engines, level, design_ref, text, note, technique)
CHECKS = {
    'C07': (['storesim'], 'exploration', 'DESIGN.md §6 C07, §4 I-store',
            'Seeded simulation of operation histories on the real TokenStore against a Python list, with the load '
            'factor randomised per run (2..1000) so that block split / merge / rebalance paths run; every read API is '
            'compared with the list after every operation. Sampling, not proof.',
            'Trusts the list reference model (40 lines) and that patching token_store._LOAD_FACTOR and its derived '
            'module globals is equivalent to shipping another constant.',
            'deterministic simulation: seeded op histories vs list reference model, load-factor knob randomised'),
    'C08': (['storesim'], 'exploration', 'DESIGN.md §6 C08, §4 I-store',
            'Same histories as C07 plus value/raw_text updates through real token models that add and remove line '
            'breaks; after every operation get_position/get_index of every token is compared with the (line, column) '
            'computed from the concatenated text.',
            'Positions follow the store convention (0-based line and column, a line ends at \\n).',
            'deterministic simulation: seeded op histories, positions recomputed from text after every step'),
}

NOT_BUILT = 'check not built yet in this session (see DESIGN.md for the planned engine)'

NOT_APPLICABLE = {
    'C01': 'pure function of one input (text, target, flag) evaluated once: no history, schedule, fault or knob for a '
           'simulator to decide; seeded text generation would be input fuzzing in costume (DESIGN.md §6 C01)',
    'C15': 'pure function of constructor arguments evaluated once; no history, fault or schedule (DESIGN.md §6 C15); '
           'constructed donors are exercised incidentally inside insertion histories of C05/C06',
}

ENGINES = {
    'storesim': ('sim/storesim.py', 'bare TokenStore vs Python list, load-factor knob, refusal faults'),
    'docsim': ('sim/docsim.py', 'parsed document session + pool of detached nodes + retained view handles; '
                                'reference models R_text/R_seq/R_map/R_cost, invariants I-store/I-tree/I-views/I-own/I-iso'),
    'toksim': ('sim/toksim.py', 'token models under value/raw_text/indent assignment histories, re-lexed by the real lexer'),
    'exprsim': ('sim/exprsim.py', 'NumberExpr operator chains (free and attached operands) vs independent evaluator'),
    'edsim': ('sim/edsim.py', 'Editor over an interposed real directory tree; glob order, path spelling, CRLF, raising bodies'),
}

ALL = [f'C{i:02d}' for i in range(1, 21)]


def main() -> int:
    checks = []
    serves = {k: [] for k in ENGINES}
    for pid in ALL:
        if pid not in CHECKS:
            continue
        engines, level, ref, text, note, technique = CHECKS[pid]
        for e in engines:
            serves[e].append(pid)
        checks.append({
            'property_id': pid,
            'quick_cmd': f'./check {pid} --tier quick',
            'thorough_cmd': f'./check {pid} --tier thorough',
            'evidence_file': f'evidence/{pid}.json',
            'replay_cmd_template': f'./check {pid} --replay {{path}}',
            'engine': '+'.join(engines),
            'level_claimed': {'category': level, 'text': text, 'design_ref': ref},
            'level_note': note,
            'technique': technique,
        })
    na = []
    for pid in ALL:
        if pid in CHECKS:
            continue
        na.append({'property_id': pid, 'reason': NOT_APPLICABLE.get(pid, NOT_BUILT)})
    manifest = {
        'version': 1,
        'setup_cmd': './setup.sh',
        'hooks': {
            'guard': 'AUTOBEAN_REFACTOR_VERIF',
            'enable': 'no source hook exists in /repo: ./check exports AUTOBEAN_REFACTOR_VERIF=1 for symmetry only; '
                      'seams are module globals and module attributes patched from /verif at run time',
            'baseline_off_cmd': 'cd /repo && /venv/bin/python -m pytest -ra -q -p no:cacheprovider --timeout=900 '
                                '--continue-on-collection-errors',
            'source_commits': [],
            'add_only': True,
        },
        'engines': [
            {'name': k, 'path': v[0], 'serves_properties': serves[k], 'kind_free_text': v[1]}
            for k, v in ENGINES.items() if serves[k]
        ],
        'checks': checks,
        'not_applicable': na,
        'notes': 'Technique family: deterministic simulation with fault injection (seeded search over operation '
                 'histories, aliasing-handle schedules, configuration knobs and injected refusals / raising bodies). '
                 'Genuine defects found on the pinned tree are repaired by fix: commits in /repo and listed in '
                 'known_findings.json; see DESIGN.md §8.',
    }
    with open(os.path.join(HERE, 'MANIFEST.json'), 'w') as f:
        json.dump(manifest, f, indent=1)
        f.write('\n')
    return 0


if __name__ == '__main__':
    sys.exit(main())
