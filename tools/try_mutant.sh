#!/bin/bash
# usage: tools/try_mutant.sh <worktree-with-change-applied> <prop> [prop...]
# Runs the quick checks against the scratch tree (VERIF_REPO) without touching /repo.
WT=$1; shift
for p in "$@"; do
  out=$(VERIF_REPO=$WT timeout 600 /verif/check $p --no-evidence 2>&1)
  rc=$?
  echo "== $p exit=$rc $(echo "$out" | grep -c '^VIOLATION') violation line(s)"
  echo "$out" | grep -v "^KNOWN-FINDING\|^check \|^  [a-z]*sim: runs" | cut -c1-420 | head -8
done
