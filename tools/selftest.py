#!/usr/bin/env python3
"""Determinism self-test: the same VERIF_SEED must give identical batch digests
(a) twice in fresh interpreters, (b) under another PYTHONHASHSEED, (c) with a
different worker count."""
import argparse
import os
import re
import subprocess
import sys

HERE = os.path.dirname(os.path.dirname(os.path.abspath(__file__)))
PROPS = ['C07', 'C05', 'C12', 'C13', 'C16']


def digest(prop, runs, workers, hashseed):
    env = dict(os.environ, VERIF_PYTHONHASHSEED=str(hashseed), VERIF_SEED='424242')
    out = subprocess.run([os.path.join(HERE, 'check'), prop, '--runs', str(runs), '--workers', str(workers),
                          '--digest-only'], env=env, capture_output=True, text=True, timeout=1800)
    ds = re.findall(r'^DIGEST (\S+) (\S+)$', out.stdout, re.M)
    if out.returncode != 0 or not ds:
        print(out.stdout[-2000:], out.stderr[-2000:])
        raise SystemExit(f'selftest: {prop} digest run failed (exit {out.returncode})')
    return tuple(ds)


def main():
    ap = argparse.ArgumentParser()
    ap.add_argument('--quick', action='store_true')
    ap.add_argument('--props', nargs='*')
    args = ap.parse_args()
    runs = 96 if args.quick else 320
    ok = True
    for prop in (args.props or PROPS):
        a = digest(prop, runs, 16, 0)
        b = digest(prop, runs, 4 if args.quick else 1, 12345)
        c = a if args.quick else digest(prop, runs, 4, 0)
        same = a == b == c
        print(f'selftest {prop}: {"deterministic" if same else "DIVERGED"} over {runs} runs x (workers 16/4/1, PYTHONHASHSEED 0/12345)')
        ok &= same
    sys.exit(0 if ok else 2)


if __name__ == '__main__':
    main()
