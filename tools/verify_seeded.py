#!/usr/bin/env python3
"""Verify a seeded change and file it under /verif/seeded/<name>/.

usage: tools/verify_seeded.py <name> <property> <dir with patch.diff, demo.py, README.md> [check ids...]

Steps (all recorded in meta.json): the patch applies to /repo's HEAD; in a scratch
worktree of HEAD with the patch applied the existing test suite passes; the demo
exits 1 there and 0 on the unchanged tree; then the patch is applied to /repo
itself, the named quick checks are run, and /repo is restored."""
import json, os, shutil, subprocess, sys, time

name, prop, src = sys.argv[1], sys.argv[2], sys.argv[3]
checks = sys.argv[4:] or [prop]
dst = f'/verif/seeded/{name}'
os.makedirs(dst, exist_ok=True)
for f in ('patch.diff', 'demo.py', 'README.md'):
    shutil.copy(os.path.join(src, f), os.path.join(dst, f))
patch = os.path.join(dst, 'patch.diff')
meta = {'name': name, 'breaks_property': prop, 'ran': []}

def run(cmd, **kw):
    r = subprocess.run(cmd, shell=True, capture_output=True, text=True, **kw)
    meta['ran'].append({'cmd': cmd, 'exit': r.returncode, 'tail': (r.stdout + r.stderr)[-300:]})
    return r

assert subprocess.run('git -C /repo status --porcelain', shell=True, capture_output=True, text=True).stdout.strip() == '', '/repo not clean'
r = run(f'git -C /repo apply --check {patch}')
meta['applies_to_head'] = r.returncode == 0
wt = f'/tmp/seedverify-{name}'
subprocess.run(f'git -C /repo worktree remove --force {wt}', shell=True, capture_output=True)
run(f'git -C /repo worktree add -q --detach {wt} HEAD')
try:
    run(f'git -C {wt} apply {patch}')
    full = '--full' in os.environ.get('SEED_OPTS', '')
    ignore = '' if full else '--ignore=autobean_refactor/tests/benchmark -n 8'
    r = run(f'cd {wt} && PYTHONPATH={wt} /venv/bin/python -m pytest -q -p no:cacheprovider {ignore} 2>&1 | tail -1')
    meta['tests_pass_with_change'] = ' passed' in r.stdout and 'failed' not in r.stdout and 'error' not in r.stdout
    meta['tests_summary'] = r.stdout.strip()
    r1 = run(f'cd {wt} && PYTHONPATH={wt} /venv/bin/python {dst}/demo.py')
    r0 = run(f'cd /repo && PYTHONPATH=/repo /venv/bin/python {dst}/demo.py')
    meta['demo_exit_with_change'] = r1.returncode
    meta['demo_exit_without_change'] = r0.returncode
finally:
    subprocess.run(f'git -C /repo worktree remove --force {wt}', shell=True, capture_output=True)
# the prescribed route: apply to /repo, run the checks, undo
meta['checks'] = {}
run(f'git -C /repo apply {patch}')
try:
    for c in checks:
        t0 = time.time()
        r = subprocess.run(f'/verif/check {c} --no-evidence', shell=True, capture_output=True, text=True)
        lines = [l for l in r.stdout.splitlines() if l.startswith('VIOLATION') or l.startswith('  C') or l.startswith('OK') or 'HARNESS' in l]
        meta['checks'][c] = {'exit': r.returncode, 'seconds': round(time.time() - t0, 1), 'output': [l[:400] for l in lines[:6]]}
finally:
    subprocess.run('git -C /repo checkout -- .', shell=True)
    subprocess.run('git -C /repo clean -fdq', shell=True)
meta['caught_by'] = [c for c, v in meta['checks'].items() if v['exit'] == 1]
readme = open(os.path.join(dst, 'README.md')).read()
meta['needs_to_manifest'] = readme[:1500]
json.dump(meta, open(os.path.join(dst, 'meta.json'), 'w'), indent=1)
ok = meta['applies_to_head'] and meta['tests_pass_with_change'] and meta['demo_exit_with_change'] == 1 and meta['demo_exit_without_change'] == 0
print(name, 'VALID' if ok else 'INVALID', 'caught_by', meta['caught_by'], meta['tests_summary'][-40:])
