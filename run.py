import sys
from sim import main
sys.exit(main.main())
