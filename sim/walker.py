"""Generic tree walker and structural oracles: I-tree (C05), I-own (C14),
fingerprints (C19/C20) and the structural projection `proj` (C06/C09).

Children are enumerated through the declared field descriptors (introspect),
never through the printing code under test.
"""
from __future__ import annotations

from typing import Any, Iterator, Optional

from . import core
from . import introspect as I

models = I.models
Repeated = I.Repeated
BlockComment = models.BlockComment
Placeholder = I.internal.Placeholder
TRIVIA = (models.Whitespace, models.Newline, models.Comma)
ZERO_WIDTH = (models.Eol, models.DedentMark, Placeholder)


def children(node: Any) -> list[tuple[str, str, Any]]:
    """(slot name, kind, value) in text order.  value is a model, None, or a
    Repeated node (kind 'repeated')."""
    if isinstance(node, models.RawTokenModel):
        return []
    if isinstance(node, Repeated):
        out = [('placeholder', 'required', node.placeholder)]
        out.extend((f'[{i}]', 'item', it) for i, it in enumerate(node.items))
        return out
    if isinstance(node, I.SPECIAL_EXPR):
        out = []
        operands, ops = node.raw_operands, node.raw_ops
        for i, operand in enumerate(operands):
            out.append((f'operand{i}', 'required', operand))
            if i < len(ops):
                out.append((f'op{i}', 'required', ops[i]))
        return out
    out = []
    for slot in I.slots_of(node):
        v = slot.field.__get__(node)
        out.append((slot.name, slot.kind, v))
    return out


def iter_nodes(node: Any, path: tuple = ()) -> Iterator[tuple[tuple, Any]]:
    yield path, node
    for name, kind, child in children(node):
        if child is not None:
            yield from iter_nodes(child, path + (name,))


def leaves(node: Any) -> Iterator[Any]:
    if isinstance(node, models.RawTokenModel):
        yield node
        return
    for _, _, child in children(node):
        if child is not None:
            yield from leaves(child)


def is_significant(tok: Any) -> bool:
    if not tok.raw_text:
        return False
    if isinstance(tok, TRIVIA):
        return False
    if isinstance(tok, BlockComment) and not tok.claimed:
        return False
    return True


def check_tree(root: Any, step: int, *, standalone: bool, label: str = 'doc') -> list[core.Violation]:
    """I-tree for the tree rooted at `root` living in root.token_store."""
    V: list[core.Violation] = []

    def v(clause, msg):
        if len(V) < 4:
            V.append(core.Violation('C05', clause, step, f'{label}: {msg}'))

    store = root.token_store
    if store is None:
        if isinstance(root, models.RawTokenModel):
            return V   # a free token is a complete tree of itself
        v('store', 'root has no token store')
        return V
    try:
        toks = list(store)
    except Exception as e:
        v('store', f'store iteration raised {type(e).__name__}: {e}')
        return V
    index = {id(t): i for i, t in enumerate(toks)}
    seen: dict[int, tuple] = {}

    def span(node, path) -> Optional[tuple[int, int]]:
        try:
            ft, lt = node.first_token, node.last_token
        except Exception as e:
            v('span', f'{"/".join(path)}: first/last token raised {type(e).__name__}: {e}')
            return None
        a, b = index.get(id(ft)), index.get(id(lt))
        if a is None or b is None:
            v('span', f'{"/".join(path)} ({type(node).__name__}): first/last token not in the root store')
            return None
        if a > b:
            v('span', f'{"/".join(path)} ({type(node).__name__}): first token after last token')
            return None
        return a, b

    def walk(node, path) -> Optional[tuple[int, int]]:
        if isinstance(node, models.RawTokenModel):
            i = index.get(id(node))
            if i is None:
                v('leaf', f'{"/".join(path)}: leaf token {node!r} is not in the root store')
                return None
            if id(node) in seen:
                v('leaf', f'{"/".join(path)}: token {node!r} reached twice (also at {"/".join(seen[id(node)])})')
            seen[id(node)] = path
            return i, i
        if node.token_store is not store:
            v('store', f'{"/".join(path)} ({type(node).__name__}) lives in a different token store')
        sp = span(node, path)
        prev_end = None
        first_child = last_child = None
        for name, kind, child in children(node):
            if child is None:
                continue
            csp = walk(child, path + (name,))
            if csp is None:
                continue
            if sp is not None and not (sp[0] <= csp[0] and csp[1] <= sp[1]):
                v('nesting', f'{"/".join(path + (name,))}: child span {csp} outside parent span {sp}')
            if prev_end is not None and csp[0] <= prev_end:
                v('order', f'{"/".join(path + (name,))}: child span {csp} not after previous sibling ending at {prev_end}')
            prev_end = csp[1]
            if first_child is None:
                first_child = csp
            last_child = csp
        if sp is not None and first_child is not None:
            if isinstance(node, models.File):
                if sp != (0, len(toks) - 1):
                    v('span', f'File span {sp} is not the whole store (0, {len(toks) - 1})')
            else:
                if sp[0] != first_child[0]:
                    v('span', f'{"/".join(path)} ({type(node).__name__}): first_token at {sp[0]} but first child starts at {first_child[0]}')
                if sp[1] != last_child[1]:
                    v('span', f'{"/".join(path)} ({type(node).__name__}): last_token at {sp[1]} but last child ends at {last_child[1]}')
        return sp

    rsp = walk(root, (label,))
    if standalone and rsp is not None and toks:
        if rsp != (0, len(toks) - 1):
            v('selfcontained', f'standalone node spans {rsp} of a store with {len(toks)} tokens')
    # every significant token inside the root span is a leaf exactly once
    if rsp is not None:
        for i in range(rsp[0], rsp[1] + 1):
            t = toks[i]
            if is_significant(t) and id(t) not in seen:
                v('orphan', f'significant token #{i} {t!r} is not owned by any tree leaf')
                break
    return V


def comment_owners(root: Any) -> dict[int, list[str]]:
    """BlockComment id -> list of owner descriptions reachable from root."""
    owners: dict[int, list[str]] = {}
    for path, node in iter_nodes(root):
        if isinstance(node, models.RawTokenModel):
            continue
        for name, kind, child in children(node):
            if isinstance(child, BlockComment):
                owners.setdefault(id(child), []).append('/'.join(path + (name,)))
    return owners


def check_ownership(root: Any, step: int, label: str = 'doc') -> list[core.Violation]:
    V = []
    store = root.token_store
    if store is None or isinstance(root, models.RawTokenModel):
        return V
    owners = comment_owners(root)
    try:
        toks = root.tokens if not isinstance(root, models.File) else list(store)
    except Exception:
        return V
    for t in toks:
        if isinstance(t, BlockComment):
            n = len(owners.get(id(t), []))
            if n > 1:
                V.append(core.Violation('C14', 'multi_owner', step, f'{label}: comment {t.raw_text!r} has {n} owners: {owners[id(t)]}'))
                break
            if t.claimed != (n == 1):
                V.append(core.Violation('C14', 'claimed_flag', step,
                                        f'{label}: comment {t.raw_text!r} claimed={t.claimed} but has {n} owner(s)'))
                break
    return V


def ownership_map(root: Any) -> list[tuple[str, str]]:
    """Ordered (comment text, owner path) pairs, for comparing attributions."""
    owners = comment_owners(root)
    out = []
    for t in (list(root.token_store) if isinstance(root, models.File) else root.tokens):
        if isinstance(t, BlockComment):
            o = owners.get(id(t), [])
            out.append((t.raw_text, o[0] if o else '<unowned>'))
    return out


def fingerprint(node: Any) -> Any:
    """Shape + token identities of every slot (C19 no-op oracle)."""
    if node is None:
        return None
    if isinstance(node, BlockComment):
        return (type(node).__name__, id(node), node.raw_text, node.claimed)
    if isinstance(node, models.RawTokenModel):
        return (type(node).__name__, id(node), node.raw_text)
    return (type(node).__name__, id(node), tuple((name, fingerprint(c)) for name, kind, c in children(node)))


def struct_fp(node: Any) -> Any:
    """Shape + leaf (class, text), no identities (C20 structural equality)."""
    if node is None:
        return None
    if isinstance(node, models.RawTokenModel):
        return (type(node).__name__, node.raw_text)
    return (type(node).__name__, tuple((name, struct_fp(c)) for name, kind, c in children(node)))


def _leaf_proj(tok: Any) -> Any:
    name = type(tok).__name__
    if isinstance(tok, models.InlineComment):
        return (name, tok.raw_text.rstrip(' \t'))
    if isinstance(tok, models.Ignored):
        # IGNORED is /.*/: in a CRLF file the lexeme swallows the CR of the line end
        return (name, tok.raw_text.rstrip('\r'))
    val = getattr(tok, 'value', None)
    if val is not None and not isinstance(val, (str, bool, int)):
        val = str(val)
    return (name, tok.raw_text, val)


def proj(node: Any) -> Any:
    """Structural projection for C06: directives, fields, values, nesting and
    order; excludes comment ownership, zero-width marks, placeholders."""
    if node is None:
        return None
    if isinstance(node, BlockComment):
        return None
    if isinstance(node, models.RawTokenModel):
        if isinstance(node, ZERO_WIDTH):
            return None
        return _leaf_proj(node)
    if isinstance(node, Repeated):
        return [proj(it) for it in node.items if not isinstance(it, BlockComment)]
    out = []
    for name, kind, c in children(node):
        if name in ('_leading_comment', '_trailing_comment', '_eol', '_dedent_mark'):
            continue
        out.append((name, proj(c)))
    out.extend(_said_values(node))
    return (type(node).__name__, out)


def _said_values(node: Any) -> list:
    """What the model *says* through its computed and value-level getters (plain values only; nodes they
    return are covered by the raw children): a getter that answers from a stale cache differs from the
    same getter on the re-parsed text."""
    import datetime
    import decimal
    out = []

    def plain(v: Any) -> Any:
        if v is None or isinstance(v, (bool, str, int)):
            return ('v', v)
        if isinstance(v, decimal.Decimal):
            return ('dec', str(v))
        if isinstance(v, datetime.date):
            return ('date', v.isoformat())
        return None
    names = []
    if isinstance(node, I.SPECIAL_EXPR) or isinstance(node, (models.NumberExpr, models.NumberParenExpr, models.NumberUnaryExpr)):
        names.append('value')
    # comment getters are left out as comment ownership is (the projection is about directives, fields, values)
    names.extend(n for n, m in I.members_of(node).items()
                 if m.kind.startswith('value_') and m.kind != 'value_opt_indented_string' and 'comment' not in n)
    for n in names:
        try:
            p = plain(getattr(node, n))
        except (decimal.DecimalException, ZeroDivisionError):
            p = ('undefined',)
        if p is not None:
            out.append(('=' + n, p))
    # the list and mapping views: what they enumerate (plain items by value, nodes by type)
    for n, m in I.members_of(node).items():
        if m.kind not in ('string_view', 'custom_view', 'meta_view', 'filtered_view'):
            continue
        try:
            view = getattr(node, n)
            if m.kind == 'meta_view':
                items = [(k, plain(v) or type(v).__name__) for k, v in view.items()]
            else:
                items = [plain(x) or type(x).__name__ for x in view]
        except (decimal.DecimalException, ZeroDivisionError):
            items = ('undefined',)
        out.append(('=' + n, items))
    return out


def comment_lines(root: Any) -> list[str]:
    out = []
    toks = list(root.token_store) if isinstance(root, models.File) else root.tokens
    for t in toks:
        if isinstance(t, BlockComment):
            out.extend(line.strip(' \t\r') for line in t.raw_text.split('\n'))
    return out


def first_diff(a: Any, b: Any, path: str = '') -> Optional[str]:
    """Human-readable location of the first difference between two projections."""
    if type(a) != type(b):
        return f'{path}: {a!r} vs {b!r}'[:300]
    if isinstance(a, (list, tuple)):
        if len(a) != len(b):
            return f'{path}: length {len(a)} vs {len(b)}: {a!r} vs {b!r}'[:400]
        for i, (x, y) in enumerate(zip(a, b)):
            d = first_diff(x, y, f'{path}/{i}')
            if d:
                return d
        return None
    if a != b:
        return f'{path}: {a!r} vs {b!r}'[:300]
    return None
