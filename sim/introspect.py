"""Generic catalogue of the model classes, discovered from the live classes.

For every class in models.TREE_MODELS:
  * SLOTS: the child slots in text order (from the constructor signature and
    the field descriptors), with kind and accepted child types;
  * MEMBERS: the public API members by descriptor type (raw node properties,
    value properties, repeated wrappers and views, data fields).
An unknown RawTreeModel subclass or an unmappable constructor parameter is a
HarnessError (fail loudly rather than guess).
"""
from __future__ import annotations

import dataclasses
import inspect
import types
import typing
from typing import Any, Optional

from . import core

core.use_repo()
from autobean_refactor import models  # noqa: E402
from autobean_refactor.models import internal, meta_item_internal, meta_value_internal  # noqa: E402
from autobean_refactor.models.internal import fields as fields_lib  # noqa: E402
from autobean_refactor.models.internal import properties as props_lib  # noqa: E402
from autobean_refactor.models.internal import value_properties as vprops_lib  # noqa: E402
from autobean_refactor.models.internal import interleaving_comments as ic_lib  # noqa: E402

SPECIAL_EXPR = (models.NumberAddExpr, models.NumberMulExpr)
Repeated = internal.Repeated

_FORWARD = {
    'NumberAddExpr': (models.NumberAddExpr,),
    'NumberAtomExpr': (models.Number, models.NumberParenExpr, models.NumberUnaryExpr),
    'NumberMulExpr': (models.NumberMulExpr,),
}


def _types_of(arg: Any) -> tuple:
    if isinstance(arg, typing.ForwardRef):
        return _FORWARD[arg.__forward_arg__]
    if isinstance(arg, str):
        return _FORWARD[arg]
    if isinstance(arg, types.UnionType) or typing.get_origin(arg) is typing.Union:
        out = []
        for a in typing.get_args(arg):
            out.extend(_types_of(a))
        return tuple(out)
    if isinstance(arg, type):
        return (arg,)
    raise core.HarnessError(f'cannot interpret type argument {arg!r}')


def field_types(f: Any) -> tuple:
    oc = getattr(f, '__orig_class__', None)
    if oc is None:
        return ()
    return _types_of(typing.get_args(oc)[0])


@dataclasses.dataclass
class Slot:
    name: str            # private field name, e.g. '_flag'
    kind: str            # required | optional_left | optional_right | repeated
    types: tuple
    field: Any


@dataclasses.dataclass
class Member:
    name: str
    kind: str
    desc: Any
    slot: Optional[str] = None      # underlying private field name when derivable
    types: tuple = ()               # accepted raw types (node members) / token class (value members)
    inner: Optional[str] = None     # name of the raw member a value/view member is built on


SLOTS: dict[type, list[Slot]] = {}
MEMBERS: dict[type, dict[str, Member]] = {}
TREE_CLASSES: list[type] = []


def _find_attr(cls: type, name: str) -> Any:
    for k in cls.__mro__:
        if name in vars(k):
            return vars(k)[name]
    return None


def _slot_kind(f: Any) -> str:
    if isinstance(f, fields_lib.required_field):
        return 'required'
    if isinstance(f, fields_lib.optional_left_field):
        return 'optional_left'
    if isinstance(f, fields_lib.optional_right_field):
        return 'optional_right'
    if isinstance(f, fields_lib.repeated_field):
        return 'repeated'
    raise core.HarnessError(f'unknown field type {type(f)}')


def _build_slots(cls: type) -> list[Slot]:
    if issubclass(cls, SPECIAL_EXPR):
        return []
    params = [p for p in inspect.signature(cls.__init__).parameters.values()][2:]
    out = []
    for p in params:
        if p.kind is inspect.Parameter.KEYWORD_ONLY:
            f = _find_attr(cls, p.name)
            if not isinstance(f, fields_lib.data_field):
                raise core.HarnessError(f'{cls.__name__}: keyword parameter {p.name} is not a data_field')
            continue
        name = '_' + (p.name[len('repeated_'):] if p.name.startswith('repeated_') else p.name)
        f = _find_attr(cls, name)
        if not isinstance(f, fields_lib.field):
            raise core.HarnessError(f'{cls.__name__}: constructor parameter {p.name} has no field {name}')
        out.append(Slot(name, _slot_kind(f), field_types(f), f))
    return out


def _all_descriptors(cls: type) -> dict[str, Any]:
    seen: dict[str, Any] = {}
    for k in cls.__mro__:
        for n, v in vars(k).items():
            if n not in seen:
                seen[n] = v
    return seen


def _field_name_of(cls: type, f: Any) -> Optional[str]:
    for k in cls.__mro__:
        for n, v in vars(k).items():
            if v is f:
                return n
    return None


def _member_name_of(cls: type, d: Any) -> Optional[str]:
    for k in cls.__mro__:
        for n, v in vars(k).items():
            if v is d and not n.startswith('_'):
                return n
    for k in cls.__mro__:
        for n, v in vars(k).items():
            if v is d:
                return n
    return None


def _build_members(cls: type) -> dict[str, Member]:
    out: dict[str, Member] = {}
    descs = _all_descriptors(cls)
    for name, d in descs.items():
        if name.startswith('_'):
            continue
        m: Optional[Member] = None
        if isinstance(d, props_lib.required_node_property):
            f = d._inner_field
            m = Member(name, 'raw_required', d, _field_name_of(cls, f), field_types(f))
        elif isinstance(d, props_lib.optional_node_property):
            f = d._inner_field
            m = Member(name, 'raw_optional', d, _field_name_of(cls, f), field_types(f))
        elif isinstance(d, ic_lib.repeated_node_with_interleaving_comments_property):
            f = d._inner_field
            m = Member(name, 'raw_repeated_comments', d, _field_name_of(cls, f), field_types(f))
        elif isinstance(d, props_lib.repeated_node_property):
            f = d._inner_field
            m = Member(name, 'raw_repeated', d, _field_name_of(cls, f), field_types(f))
        elif isinstance(d, props_lib.unordered_node_property):
            m = Member(name, 'unordered', d, None, (d._inner_type,), inner=_member_name_of(cls, d._inner_property))
        elif isinstance(d, meta_item_internal.repeated_meta_item_property):
            m = Member(name, 'meta_view', d, None, (models.MetaItem,), inner='raw_meta_with_comments')
        elif isinstance(d, meta_item_internal.repeated_raw_meta_item_property):
            m = Member(name, 'raw_meta_view', d, None, (models.MetaItem,), inner='raw_meta_with_comments')
        elif isinstance(d, vprops_lib.repeated_string_property):
            m = Member(name, 'string_view', d, None, ())
        elif isinstance(d, vprops_lib.repeated_filtered_node_property):
            m = Member(name, 'filtered_view', d, None, ())
        elif isinstance(d, props_lib.cached_custom_property):
            m = Member(name, 'custom_view', d, None, ())
        elif isinstance(d, props_lib.custom_property):
            m = Member(name, 'custom_raw', d, None, ())
        elif isinstance(d, vprops_lib.required_value_property):
            inner = d._inner_property
            f = getattr(inner, '_inner_field', None)
            m = Member(name, 'value_required', d, _field_name_of(cls, f) if f else None,
                       field_types(f) if f else (), inner=_member_name_of(cls, inner))
        elif isinstance(d, vprops_lib.optional_indented_string_property):
            m = Member(name, 'value_opt_indented_string', d, None, (d._inner_type,), inner=_member_name_of(cls, d._inner_property))
        elif isinstance(d, vprops_lib.optional_string_property):
            m = Member(name, 'value_opt_string', d, None, (d._inner_type,), inner=_member_name_of(cls, d._inner_property))
        elif isinstance(d, vprops_lib.optional_decimal_property):
            m = Member(name, 'value_opt_decimal', d, None, (d._inner_type,), inner=_member_name_of(cls, d._inner_property))
        elif isinstance(d, vprops_lib.optional_date_property):
            m = Member(name, 'value_opt_date', d, None, (d._inner_type,), inner=_member_name_of(cls, d._inner_property))
        elif isinstance(d, meta_value_internal.optional_meta_value_property):
            m = Member(name, 'value_meta', d, None, (), inner=_member_name_of(cls, d.inner_property))
        elif isinstance(d, fields_lib.data_field) and not isinstance(d, fields_lib.field):
            m = Member(name, 'data', d)
        elif isinstance(d, property) and d.fset is not None and name in ('merge',):
            m = Member(name, 'value_bool', d)
        elif isinstance(d, property) and name == 'value' and issubclass(cls, models.NumberExpr) and d.fset is not None:
            m = Member(name, 'value_decimal_expr', d)
        if m is not None:
            # propagate the slot of value members from the raw member they wrap
            out[name] = m
    for m in out.values():
        if m.slot is None and m.inner and m.inner in out:
            m.slot = out[m.inner].slot
    return out


def build() -> None:
    if TREE_CLASSES:
        return
    for rule, cls in sorted(models.TREE_MODELS.items()):
        TREE_CLASSES.append(cls)
        SLOTS[cls] = _build_slots(cls)
        MEMBERS[cls] = _build_members(cls)
    SLOTS[Repeated] = []
    MEMBERS[Repeated] = {}


build()


def slots_of(node: Any) -> list[Slot]:
    cls = type(node)
    if cls not in SLOTS:
        if isinstance(node, models.RawTreeModel):
            raise core.HarnessError(f'unknown RawTreeModel subclass {cls!r}')
        return []
    return SLOTS[cls]


def members_of(node: Any) -> dict[str, Member]:
    return MEMBERS.get(type(node), {})
