"""Execution of docsim operations with their per-operation oracles."""
from __future__ import annotations

import collections.abc
import copy
import decimal
from typing import Any, Optional

from . import core
from . import introspect as I
from . import walker as W
from .docbase import Diff, Session, Unresolvable, dec, is_sep, print_model, text_of
from .docops import (COST_GROUP, CUSTOM_RAW_TYPES, TXN_GROUP, Effect, check_child_edit, consume_donors,
                     custom_simplify, donor_roots, ids_of, make_donor, same_seq, sibling_snapshot, span_in,
                     store_tokens, view_expected, view_filter)

models = I.models
BlockComment = models.BlockComment
ARITH_ERRORS = (decimal.DivisionByZero, decimal.InvalidOperation, ZeroDivisionError)


def _root_node(sess: Session, node: Any) -> Any:
    key = sess.key_of_node(node)
    if key == 'doc':
        return sess.root
    if key is None:
        return None
    return sess.pool[key]


def _before(node: Any) -> list:
    return [(t, t.raw_text) for t in store_tokens(node)]


def _index(toks: list) -> dict:
    return {id(t): i for i, t in enumerate(toks)}


def _span_before(before: list, node: Any) -> Optional[tuple]:
    return span_in({id(t): i for i, (t, _) in enumerate(before)}, node)


# ==========================================================================
# T: token edits (C02)

def exec_token(sess: Session, op: dict, step: int) -> Effect:
    tok = sess.resolve(op['t'])
    if not isinstance(tok, models.RawTokenModel):
        raise Unresolvable('not a token')
    eff = Effect(op['op'], 'T', type(tok).__name__)
    eff.touched = {sess.root_key(op['t'])}
    before = _before(tok)
    old = tok.raw_text
    kind = op['op']
    v = dec(op['v'])
    try:
        if kind == 'tok_value':
            if not hasattr(type(tok), 'value'):
                raise Unresolvable('token has no value')
            tok.value = v
        elif kind == 'tok_raw':
            tok.raw_text = v
        elif kind == 'comment_indent':
            if not isinstance(tok, BlockComment):
                raise Unresolvable('not a comment')
            tok.indent = v
    except Unresolvable:
        raise
    except Exception as e:
        eff.exc = e
        eff.outcome = 'raised'
        if op.get('fault'):
            eff.fault = op['fault']
            return eff
        eff.v('C02', 'unexpected_exception', step, f'{kind} on {type(tok).__name__} with in-domain {v!r} raised {type(e).__name__}: {e}')
        return eff
    after = store_tokens(tok)
    if len(after) != len(before) or any(a is not b[0] for a, b in zip(after, before)):
        eff.v('C02', 'identity', step, f'{kind} on {type(tok).__name__}: token identities or order changed')
        return eff
    for (t, txt), a in zip(before, after):
        if t is tok:
            continue
        if a.raw_text != txt:
            eff.v('C02', 'other_token_changed', step, f'{kind} on {type(tok).__name__} {old!r}: another token changed {txt!r} -> {a.raw_text!r}')
            return eff
    if kind == 'tok_raw' and tok.raw_text != v:
        eff.v('C02', 'raw_text_not_stored', step, f'raw_text assigned {v!r} but token holds {tok.raw_text!r}')
    if kind == 'tok_value':
        try:
            if tok.value != v:
                eff.v('C02', 'value_not_stored', step, f'value assigned {v!r} but token holds {tok.value!r}')
        except Exception:
            pass
    exp = ''.join(tok.raw_text if t is tok else txt for t, txt in before)
    if text_of(after) != exp:
        eff.v('C02', 'text', step, 'printed text is not the old text with the token span replaced')
    return eff


# ==========================================================================
# N: raw setters (C03, C05)

def _group_of(node: Any, mname: str) -> Optional[str]:
    if isinstance(node, models.CostSpec) and (mname in COST_GROUP or mname.endswith('_comp') or mname in ('raw_date', 'raw_label', 'raw_asterisk', 'date', 'label', 'merge')):
        return 'cost'
    if isinstance(node, models.Transaction) and mname in TXN_GROUP:
        return 'txn'
    return None


def _affected(node: Any, m: I.Member) -> tuple[set, set]:
    """(slot names affected, token ids of the affected children now)."""
    g = _group_of(node, m.name)
    if g == 'cost':
        return {'_cost'}, ids_of(node)
    if g == 'txn':
        slots = {'_string0', '_string1', '_string2'}
        ids = set()
        for s in slots:
            ids |= ids_of(getattr(node, s))
        return slots, ids
    if m.slot:
        child = getattr(node, m.slot)
        return {m.slot}, ids_of(child)
    return set(), ids_of(node)


def _no_self_insertion(donor: Any, target: Any) -> None:
    """A node cannot be inserted into itself or into one of its own descendants."""
    if donor is None or not isinstance(donor, models.RawTreeModel):
        if donor is target and donor is not None:
            raise Unresolvable('donor is the target itself')
        return
    for _, n in W.iter_nodes(donor):
        if n is target:
            raise Unresolvable('donor contains the target')


def exec_set_raw(sess: Session, op: dict, step: int) -> Effect:
    node = sess.resolve(op['t'])
    m = I.members_of(node).get(op['m'])
    if m is None:
        raise Unresolvable('no such member')
    eff = Effect('set_raw:' + m.kind, 'N', f'{type(node).__name__}.{m.name}')
    recipes = [op['v']] if op['v'] is not None else []
    eff.touched = {sess.root_key(op['t'])} | donor_roots(recipes)
    donor = make_donor(sess, op['v'])
    _no_self_insertion(donor, node)
    if isinstance(node, (models.CostSpec, models.UnitCost, models.TotalCost)):
        getattr(sess, 'cost_clean', {}).clear()      # raw edits: the cost may leave the listed forms
    cur = getattr(node, m.name)
    if donor is None and cur is None:
        eff.outcome = 'skipped'
        return eff
    before = _before(node)
    sp_b = _span_before(before, node)
    slots, old_ids = _affected(node, m)
    sibs = sibling_snapshot(node, slots) if slots != {'_cost'} else []
    try:
        setattr(node, m.name, donor)
        if isinstance(cur, models.RawTreeModel) and cur is not donor and not isinstance(cur, I.SPECIAL_EXPR):
            zs = getattr(sess, 'zombies', None)
            if zs is None:
                zs = sess.zombies = []
            try:
                if cur.first_token.store_handle is None:
                    zs.append(cur)
                    del zs[:-4]
            except Exception:
                pass
    except Exception as e:
        eff.exc = e
        eff.outcome = 'raised'
        if op.get('fault'):
            eff.fault = op['fault']
            return eff
        if isinstance(e, ValueError) and isinstance(node, models.CostSpec) and 'Cannot' in str(e):
            eff.fault = 'F6_cost_rejection'
            return eff
        eff.v('C03', 'unexpected_exception', step,
              f'{type(node).__name__}.{m.name} = {type(donor).__name__ if donor is not None else None} raised {type(e).__name__}: {e}')
        return eff
    consume_donors(sess, recipes)
    if donor is not None:
        sess.recent.append(donor)
    after = store_tokens(node)
    sp_a = span_in(_index(after), node)
    _, new_ids = _affected(node, m)
    check_child_edit(eff, step, 'C03', before, after, sp_b, sp_a, old_ids, new_ids, sibs,
                     f'{type(node).__name__}.{m.name} = {type(donor).__name__ if donor is not None else None}')
    if m.kind in ('raw_required', 'raw_optional', 'unordered') and _group_of(node, m.name) != 'txn':
        got = getattr(node, m.name)
        # an unordered slot is "the first component of that type": after a removal the next component of
        # the type (there only after raw component edits) legitimately takes its place
        if got is not donor and not (m.kind == 'unordered' and donor is None and got is not cur):
            eff.v('C03', 'readback', step, f'{type(node).__name__}.{m.name} does not return the node just assigned')
    return eff


# ==========================================================================
# V: value setters (C09, C03, C18)

def _read_values(node: Any) -> dict:
    out = {}
    for name, m in I.members_of(node).items():
        if m.kind.startswith('value_'):
            try:
                out[name] = getattr(node, name)
            except ARITH_ERRORS:
                out[name] = '<arith>'
    return out


def _val_eq(a: Any, b: Any) -> bool:
    if isinstance(a, models.RawModel) or isinstance(b, models.RawModel):
        return a is b
    if type(a) is bool or type(b) is bool:
        return type(a) is type(b) and a == b
    return a == b


def _cost_normal_form(cost: Any) -> bool:
    """One of the concrete forms the statement lists: at most one of number /
    currency / amount / compound amount, at most one date, label and merge mark."""
    comps = list(cost.raw_cost.raw_components)
    main = [c for c in comps if isinstance(c, (models.NumberExpr, models.Currency, models.Amount, models.CompoundAmount))]
    return len(main) <= 1 and all(sum(1 for c in comps if isinstance(c, t)) <= 1 for t in (models.Date, models.EscapedString, models.Asterisk))


def exec_set_val(sess: Session, op: dict, step: int) -> Effect:
    node = sess.resolve(op['t'])
    m = I.members_of(node).get(op['m'])
    if m is None:
        raise Unresolvable('no such member')
    eff = Effect('set_val:' + m.kind, 'V', f'{type(node).__name__}.{m.name}')
    recipes = []
    raw_v = op['v']
    if isinstance(raw_v, dict) and 'node' in raw_v:
        recipes = [raw_v['node']]
        v = make_donor(sess, raw_v['node'])
        _no_self_insertion(v, node)
    else:
        v = dec(raw_v)
    eff.touched = {sess.root_key(op['t'])} | donor_roots(recipes)
    if m.kind == 'data':
        setattr(node, m.name, v)
        if getattr(node, m.name) != v:
            eff.v('C09', 'readback', step, f'{m.name} reads {getattr(node, m.name)!r} after assigning {v!r}')
        eff.noop_expected = True
        return eff
    vals_before = _read_values(node)
    cur = vals_before.get(m.name)
    before = _before(node)
    sp_b = _span_before(before, node)
    slots, old_ids = _affected(node, m)
    sibs = sibling_snapshot(node, slots) if slots and slots != {'_cost'} else []
    group = _group_of(node, m.name)
    expect_reject = False
    rec = None
    if group == 'cost':
        clean = getattr(sess, 'cost_clean', None)
        if clean is None:
            clean = sess.cost_clean = {}
        if _cost_normal_form(node):
            clean[id(node)] = node      # from here on only value-level setters shape this cost
        elif id(node) not in clean:
            sess.stats['cost_not_in_a_listed_form'] += 1   # e.g. raw edits added a second amount-like component
            group = 'cost_irregular'
    if group == 'cost' and m.name in ('number_per', 'number_total', 'currency'):
        rec = {k: vals_before[k] for k in ('number_per', 'number_total', 'currency')}
        rec[m.name] = v
        expect_reject = rec['number_per'] is not None and rec['number_total'] is not None and rec['currency'] is None
    pre_indent = getattr(node, 'indent', '') if isinstance(getattr(node, 'indent', ''), str) else ''
    try:
        setattr(node, m.name, v)
    except Exception as e:
        eff.exc = e
        eff.outcome = 'raised'
        if expect_reject and isinstance(e, ValueError):
            eff.fault = 'F6_cost_rejection'
            after_rej = _read_values(node)
            for k in ('number_per', 'number_total', 'currency'):
                if not _val_eq(after_rej.get(k), vals_before.get(k)):
                    eff.v('C09', 'cost_group_after_rejection', step, f'rejected {m.name} = {v!r}: {k} read {vals_before.get(k)!r} before and {after_rej.get(k)!r} after the refusal')
                    break
            return eff
        if op.get('fault') and op['fault'] != 'F6_cost_rejection':
            eff.fault = op['fault']
            return eff
        if group == 'cost_irregular' and isinstance(e, ValueError):
            eff.fault = 'F6_cost_rejection'     # outside the listed forms the record model cannot predict rejections
            return eff
        eff.v('C09', 'unexpected_exception', step,
              f'{type(node).__name__}.{m.name} = {v!r} raised {type(e).__name__}: {e}')
        return eff
    consume_donors(sess, recipes)
    if expect_reject:
        eff.v('C09', 'missing_rejection', step, f'CostSpec.{m.name} = {v!r} accepted although it leaves both numbers without a currency')
        return eff
    after = store_tokens(node)
    sp_a = span_in(_index(after), node)
    _, new_ids = _affected(node, m)
    if slots:
        check_child_edit(eff, step, 'C03', before, after, sp_b, sp_a, old_ids, new_ids, sibs,
                         f'{type(node).__name__}.{m.name} = {v!r}')
    vals_after = _read_values(node)
    # read-back
    if group == 'txn':
        exp = dict(payee=vals_before.get('payee'), narration=vals_before.get('narration'))
        if m.name in ('payee', 'narration'):
            exp[m.name] = v
            if exp['payee'] is not None and exp['narration'] is None:
                exp['narration'] = ''
            for k in ('payee', 'narration'):
                if vals_after.get(k) != exp[k]:
                    eff.v('C09', 'txn_group', step, f'after {m.name} = {v!r} from (payee={vals_before.get("payee")!r}, narration={vals_before.get("narration")!r}) '
                          f'{k} reads {vals_after.get(k)!r}, record model says {exp[k]!r}')
                    break
    elif rec is not None:
        for k in ('number_per', 'number_total', 'currency'):
            if not _val_eq(vals_after.get(k), rec[k]):
                eff.v('C09', 'cost_group', step, f'after {m.name} = {v!r} from {({k2: vals_before[k2] for k2 in rec})!r} '
                      f'{k} reads {vals_after.get(k)!r}, record model says {rec[k]!r} (text {print_model(node)!r})')
                break
    elif group == 'cost_irregular':
        return eff      # not one of the forms the statement covers: the record model does not apply
    else:
        got = vals_after.get(m.name)
        if not _val_eq(got, v):
            eff.v('C09', 'readback', step, f'{type(node).__name__}.{m.name} reads {got!r} after assigning {v!r}')
    # siblings
    aliases = {n for n, mm in I.members_of(node).items() if mm.slot is not None and mm.slot == m.slot}
    for name, old in vals_before.items():
        if name == m.name or name in aliases:
            continue
        if group == 'txn' and name in TXN_GROUP:
            continue
        if rec is not None and name in ('number_per', 'number_total', 'currency'):
            continue
        new = vals_after.get(name)
        if not _val_eq(new, old) and not (isinstance(old, models.RawModel) and new is old):
            eff.v('C09', 'sibling_value', step, f'{type(node).__name__}.{name} changed from {old!r} to {new!r} when {m.name} was assigned {v!r}')
            break
    # C18: comments created from a value take the owner's indent
    if m.kind == 'value_opt_indented_string' and cur is not None and v is not None:
        c = getattr(node, m.inner)
        if c is not None and any(not line.startswith(c.indent + ';') for line in c.raw_text.split('\n')):
            eff.v('C18', 'comment_line_indent', step, f'{type(node).__name__}.{m.name} = {v!r}: a line of the updated comment {c.raw_text!r} lost its indent {c.indent!r}')
    if m.kind == 'value_opt_indented_string' and cur is None and v is not None:
        c = getattr(node, m.inner)
        if c is not None and c.indent != pre_indent:
            eff.v('C18', 'comment_indent', step, f'{type(node).__name__}.{m.name} created with indent {c.indent!r}, owner indent is {pre_indent!r}')
        elif c is not None and any(not line.startswith(pre_indent + ';') for line in c.raw_text.split('\n')):
            eff.v('C18', 'comment_line_indent', step, f'{type(node).__name__}.{m.name} = {v!r}: a line of the created comment {c.raw_text!r} does not start with the owner indent {pre_indent!r}')
    elif m.kind == 'value_opt_string' and m.types and m.types[0] is BlockComment and cur is None and v is not None:
        c = getattr(node, m.inner)
        if c is not None and c.indent != '':
            eff.v('C18', 'comment_indent', step, f'{type(node).__name__}.{m.name} created with indent {c.indent!r} on an unindented entry')
    return eff


# ==========================================================================
# sequence ops through any wrapper/view (C10, C03, C05, C18)

def _decode_items(sess: Session, items: list) -> tuple[list, list]:
    vals, recipes = [], []
    for it in items:
        if 'node' in it:
            recipes.append(it['node'])
            vals.append(make_donor(sess, it['node']))
        else:
            vals.append(dec(it['val']))
    return vals, recipes


def _owner_of(sess: Session, ref: dict) -> tuple[Any, str]:
    if ref['r'] != 'doc' and ref['r'][0] == 'handle':
        h = sess.handles[ref['r'][1]] if ref['r'][1] < len(sess.handles) else None
        if h is None:
            raise Unresolvable('handle gone')
        return h['owner'], h['member']
    owner = sess.resolve({'r': ref['r'], 'p': ref['p'][:-1]})
    return owner, ref['p'][-1]


def _raw_member_of(owner: Any, mname: str) -> str:
    m = I.members_of(owner)[mname]
    if m.kind in ('raw_repeated', 'raw_repeated_comments'):
        return mname
    return view_filter(mname)[0]


def _slot_of_raw(owner: Any, raw_member: str) -> str:
    return I.members_of(owner)[raw_member].slot


def _pyref(kind: str, cur: list, op: dict, vals: list, is_view: bool) -> tuple[Optional[list], Optional[type], Any]:
    """Python list semantics.  Returns (expected list, expected exception class, result)."""
    exp = list(cur)
    res = None
    try:
        if kind == 'append':
            exp.append(vals[0])
        elif kind == 'insert':
            exp.insert(op['i'], vals[0])
        elif kind == 'pop':
            res = exp.pop() if op.get('i') is None else exp.pop(op['i'])
        elif kind == 'setitem':
            exp[op['i']] = vals[0]
        elif kind == 'setslice':
            sl = slice(*op['sl'])
            if is_view and len(range(len(exp))[sl]) != len(vals):
                return None, ValueError, None      # documented refusal on filtered views
            exp[sl] = vals
        elif kind == 'delitem':
            del exp[op['i']]
        elif kind == 'delslice':
            del exp[slice(*op['sl'])]
        elif kind in ('extend', 'iadd'):
            exp.extend(vals)
        elif kind == 'clear':
            exp.clear()
        elif kind == 'reverse':
            if len(exp) >= 2 and any(isinstance(x, models.RawModel) for x in exp):
                # MutableSequence.reverse assigns elements that still live in the list: a refusal
                return None, ValueError, None
            exp.reverse()
    except (IndexError, ValueError) as e:
        return None, type(e), None
    return exp, None, res


def exec_seq(sess: Session, op: dict, step: int) -> Effect:
    w = sess.resolve(op['t'])
    owner, mname = _owner_of(sess, op['t'])
    m = I.members_of(owner).get(mname)
    if m is None or not hasattr(w, '__len__'):
        raise Unresolvable('not a wrapper')
    kind = op['k']
    is_view = m.kind not in ('raw_repeated', 'raw_repeated_comments')
    eff = Effect(f'seq_{kind}:{"view" if is_view else "raw"}', 'V' if is_view else 'N', f'{type(owner).__name__}.{mname}')
    vals, recipes = _decode_items(sess, op.get('items', []))
    for x in vals:
        if isinstance(x, models.RawModel):
            _no_self_insertion(x, owner)
    owner_key = sess.key_of_node(owner)
    eff.touched = {owner_key} | donor_roots(recipes)
    raw_member = _raw_member_of(owner, mname)
    slot = _slot_of_raw(owner, raw_member)
    if isinstance(owner, (models.CostSpec, models.UnitCost, models.TotalCost)) and kind not in ('getitem', 'index_count'):
        getattr(sess, 'cost_clean', {}).clear()
    raw_before = list(getattr(owner, raw_member))
    cur = list(w)
    fresh_expected = view_expected(owner, mname) if is_view else raw_before
    stale = not same_seq(cur, fresh_expected)
    if stale:
        # the handle is already inconsistent: that is I-views' business (reported by the invariant pass)
        raise Unresolvable('stale handle; judged by I-views')
    before = _before(owner)
    sp_b = _span_before(before, owner)
    old_item_ids = {id(x) for x in raw_before}
    item_tokens_before = {id(x): ids_of(x) for x in raw_before} if is_view else {}
    meta_indents = [it.indent for it in raw_before if isinstance(it, models.MetaItem)]

    # --- python reference ---------------------------------------------------
    res = None
    if kind in ('remove', 'discard'):
        if 'val' in op:
            target = dec(op['val'])
            matches = [i for i, x in enumerate(cur) if x == target]   # list.remove compares with ==
        else:
            i = op['idx_of']
            target = cur[i] if -len(cur) <= i < len(cur) else None
            if target is None:
                target = models.Tag.from_value('absent') if not is_view or m.kind != 'custom_view' else 'absent'
            matches = [j for j, x in enumerate(cur) if x == target]
        if kind == 'remove':
            exp, exp_exc = (None, ValueError) if not matches else (cur[:matches[0]] + cur[matches[0] + 1:], None)
        else:
            exp, exp_exc = [x for j, x in enumerate(cur) if j not in matches], None
    elif kind in ('getitem', 'index_count'):
        exp, exp_exc = list(cur), None
    else:
        exp, exp_exc, res = _pyref(kind, cur, op, vals, is_view)

    # --- the call -------------------------------------------------------------
    got_exc: Optional[BaseException] = None
    got_res = None
    try:
        if kind == 'append':
            w.append(vals[0])
        elif kind == 'insert':
            w.insert(op['i'], vals[0])
        elif kind == 'pop':
            got_res = w.pop() if op.get('i') is None else w.pop(op['i'])
        elif kind == 'setitem':
            w[op['i']] = vals[0]
        elif kind == 'setslice':
            # the API takes any Iterable: a list, or a one-shot iterator / generator
            w[slice(*op['sl'])] = (x for x in vals) if op.get('as_iter') else vals
        elif kind == 'delitem':
            del w[op['i']]
        elif kind == 'delslice':
            del w[slice(*op['sl'])]
        elif kind == 'extend':
            w.extend(iter(vals) if op.get('as_iter') else vals)
        elif kind == 'iadd':
            w2 = w
            w2 += vals
            if w2 is not w:
                eff.v('C10', 'iadd_identity', step, '+= returned another object')
        elif kind == 'reverse':
            w.reverse()
        elif kind == 'index_count':
            eff.noop_expected = True
            i = op['i']
            if -len(cur) <= i < len(cur):
                x = cur[i]
                exp_idx = next(j for j, y in enumerate(cur) if y == x)
                exp_cnt = sum(1 for y in cur if y == x)
                if w.index(x) != exp_idx or w.count(x) != exp_cnt or (x in w) is not True:
                    eff.v('C10', 'index_count', step, f'{type(owner).__name__}.{mname}: index/count/in of element {i} disagree with a list')
            return eff
        elif kind == 'clear':
            w.clear()
        elif kind == 'remove':
            w.remove(target)
        elif kind == 'discard':
            if not hasattr(w, 'discard'):
                raise Unresolvable('no discard')
            w.discard(target)
        elif kind == 'getitem':
            eff.noop_expected = True
            try:
                a = w[op['i']]
                e1 = None
            except IndexError as e:
                a, e1 = None, e
            try:
                b = cur[op['i']]
                e2 = None
            except IndexError as e:
                b, e2 = None, e
            if (e1 is None) != (e2 is None) or (e1 is None and not same_seq([a], [b])):
                eff.v('C10', 'getitem', step, f'{type(owner).__name__}.{mname}[{op["i"]}] gives {a!r}/{type(e1).__name__}, list gives {b!r}/{type(e2).__name__}')
            if 'sl' in op:
                sl = slice(*op['sl'])
                if not same_seq(list(w[sl]), cur[sl]):
                    eff.v('C10', 'getslice', step, f'{type(owner).__name__}.{mname}[{op["sl"]}] differs from list slice')
            return eff
    except Unresolvable:
        raise
    except ARITH_ERRORS:
        # a ledger expression such as 0/0 has no value; reading it through a value view raises
        # exactly what evaluating it directly raises, which no property forbids
        raise Unresolvable('value of a ledger expression is undefined')
    except Exception as e:
        got_exc = e
    what = f'{type(owner).__name__}.{mname}.{kind}({op.get("i", op.get("sl", ""))}; {len(vals)} value(s)) on {len(cur)} item(s)'
    if got_exc is not None:
        eff.exc = got_exc
        eff.outcome = 'raised'
        if exp_exc is not None and isinstance(got_exc, exp_exc):
            eff.fault = {IndexError: 'F2_bad_index', ValueError: 'F4_size_or_missing'}.get(exp_exc, 'refusal')
            return eff
        if op.get('fault', '').startswith('F1') and (exp_exc is None or op['fault'].startswith('F1z')):
            eff.fault = op['fault']
            return eff
        if exp_exc is not None:
            eff.v('C10', 'exception_type', step, f'{what}: raised {type(got_exc).__name__} where a list raises {exp_exc.__name__}')
            return eff
        eff.v('C10', 'unexpected_exception', step, f'{what}: raised {type(got_exc).__name__}: {got_exc}')
        return eff
    if exp_exc is not None:
        eff.v('C10', 'missing_exception', step, f'{what}: accepted where a list raises {exp_exc.__name__}')
        return eff
    consume_donors(sess, recipes)
    for x in vals:
        if isinstance(x, models.RawModel):
            sess.recent.append(x)
    # --- list semantics on the view the op went through -----------------------------
    now = list(w)
    if not same_seq(now, exp):
        eff.v('C10', 'list_semantics', step, f'{what}: view content {_short(now)} but a Python list would hold {_short(exp)}')
    if kind == 'pop':
        if isinstance(res, models.RawModel) or isinstance(got_res, models.RawModel):
            if got_res is not res:
                eff.v('C10', 'pop_result', step, f'{what}: returned a different element than list.pop')
            elif isinstance(got_res, models.RawModel):
                sess.pool.append(got_res)
                sess.stats['pool:popped'] += 1
        elif got_res != res:
            eff.v('C10', 'pop_result', step, f'{what}: returned {got_res!r}, list.pop gives {res!r}')
    # --- C03 windows ------------------------------------------------------------
    raw_after = list(getattr(owner, raw_member))
    after = store_tokens(owner)
    sp_a = span_in(_index(after), owner)
    new_item_ids = {id(x) for x in raw_after}
    removed_items = [x for x in raw_before if id(x) not in new_item_ids]
    if kind in ('pop', 'delitem', 'delslice', 'remove', 'discard', 'clear') and exp is not None:
        # which children a Python list would have dropped (positions of `cur` missing from `exp`), mapped to the
        # raw items behind those positions: every other item is a sibling that must keep its text
        if is_view:
            raw_t, types_t, _ = view_filter(mname)
            behind = [x for x in raw_before if isinstance(x, types_t)]
        else:
            behind = raw_before
        if len(behind) == len(cur):
            gone, j = [], 0
            for i, x in enumerate(cur):
                if j < len(exp) and same_seq([x], [exp[j]]):
                    j += 1
                else:
                    gone.append(i)
            ambiguous = any(not isinstance(cur[i], models.RawModel) and any(same_seq([cur[i]], [y]) for y in exp) for i in gone)
            if j == len(exp) and not ambiguous:
                want = {id(behind[i]) for i in gone}
                got_ids = {id(x) for x in removed_items}
                if want != got_ids:
                    lost = [x for x in removed_items if id(x) not in want]
                    eff.v('C03', 'wrong_child_removed', step,
                          f'{what}: a list drops position(s) {gone}; the document lost {_short(lost)} instead of / besides them')
    if kind not in ('pop',):
        zs = getattr(sess, 'zombies', None)
        if zs is None:
            zs = sess.zombies = []
        zs.extend(x for x in removed_items if isinstance(x, models.RawTreeModel))
        del zs[:-4]
    added_items = [x for x in raw_after if id(x) not in old_item_ids]
    # tokens of removed items: they are now detached; use the before-snapshot spans captured via identity
    removed_tok_ids: set = set()
    for x in removed_items:
        removed_tok_ids |= {id(t) for t in W.leaves(x)}
    new_ids: set = set()
    for x in added_items:
        new_ids |= ids_of(x)
    inplace_ids: set = set()
    if is_view and kind in ('setitem', 'setslice', 'reverse'):
        for x in raw_after:
            if id(x) in old_item_ids and isinstance(x, models.RawTokenModel):
                inplace_ids.add(id(x))
            elif id(x) in old_item_ids and type(owner) is models.Custom:
                # a value assigned over a NumberExpr item replaces the tokens inside that item
                inplace_ids |= ids_of(x) | item_tokens_before.get(id(x), set())
    sibs = sibling_snapshot(owner, {slot})
    kept = [x for x in raw_after if id(x) in old_item_ids and id(x) not in inplace_ids and not (ids_of(x) & inplace_ids)]
    # kept items are siblings too: their tokens were captured before
    before_index = {id(t): (t, txt) for t, txt in before}
    for x in kept:
        try:
            toks = x.tokens
        except Exception:
            continue
        sibs.append((f'{mname} item', [before_index[id(t)] for t in toks if id(t) in before_index]))
    check_child_edit(eff, step, 'C03', before, after, sp_b, sp_a, removed_tok_ids | inplace_ids, new_ids | inplace_ids, sibs, what)
    # --- C18: existing lines keep their indentation; a raw donor keeps its own verbatim ---------
    for it, ind in zip([x for x in raw_before if isinstance(x, models.MetaItem)], meta_indents):
        if id(it) in new_item_ids and it.indent != ind:
            eff.v('C18', 'existing_indent_changed', step, f'{what}: indent of existing item {it.key!r} changed {ind!r} -> {it.indent!r}')
            break
    for x, r in zip(vals, op.get('items', [])):
        if isinstance(x, (models.MetaItem, models.Posting)) and isinstance(r.get('node'), dict) and 'parse' in r['node']:
            want = r['node']['text'][:len(r['node']['text']) - len(r['node']['text'].lstrip(' \t'))]
            if x.indent != want:
                eff.v('C18', 'raw_donor_indent', step, f'{what}: inserted raw {type(x).__name__} has indent {x.indent!r}, it was built with {want!r}')
                break
    return eff


def _short(xs: Optional[list]) -> str:
    if xs is None:
        return 'None'
    out = []
    for x in xs[:8]:
        if isinstance(x, models.RawModel):
            try:
                out.append(f'<{type(x).__name__} {print_model(x)[:24]!r}>')
            except Exception:
                out.append(f'<{type(x).__name__}>')
        else:
            out.append(repr(x))
    return '[' + ', '.join(out) + (', ...' if len(xs) > 8 else '') + ']'


# ==========================================================================
# mapping ops on meta views (C10, C09, C18, C03)

def exec_map(sess: Session, op: dict, step: int) -> Effect:
    w = sess.resolve(op['t'])
    owner, mname = _owner_of(sess, op['t'])
    m = I.members_of(owner).get(mname)
    if m is None or m.kind not in ('raw_meta_view', 'meta_view'):
        raise Unresolvable('not a meta view')
    kind = op['k']
    key = op['key']
    eff = Effect(f'map_{kind}:{m.kind}', 'V', f'{type(owner).__name__}.{mname}')
    recipes = []
    v = None
    if kind == 'set':
        rv = op['v']
        if isinstance(rv, dict) and 'node' in rv:
            recipes = [rv['node']]
            v = make_donor(sess, rv['node'])
            _no_self_insertion(v, owner)
        else:
            v = dec(rv)
    eff.touched = {sess.key_of_node(owner)} | donor_roots(recipes)
    items = view_expected(owner, mname)
    if not same_seq(list(w), items):
        raise Unresolvable('stale handle; judged by I-views')
    first = next((it for it in items if it.key == key), None)
    first_ids_before = ids_of(first) if first is not None else set()
    raw_member = 'raw_meta_with_comments'
    slot = _slot_of_raw(owner, raw_member)
    raw_before = list(getattr(owner, raw_member))
    before = _before(owner)
    sp_b = _span_before(before, owner)
    sib_indents = [it.indent for it in items]
    parent_indent = getattr(owner, 'indent', '') if isinstance(getattr(owner, 'indent', None), str) else ''
    indent_by = getattr(owner, 'indent_by', None)
    what = f'{type(owner).__name__}.{mname} {kind} {key!r}'
    is_raw = m.kind == 'raw_meta_view'

    def val_of(it):
        return it if is_raw else it.value

    try:
        if kind == 'get':
            eff.noop_expected = True
            try:
                got = w[key]
                if first is None:
                    eff.v('C10', 'map_get', step, f'{what}: returned a value for a missing key')
                elif not _val_eq(got, val_of(first)):
                    eff.v('C10', 'map_get', step, f'{what}: returned {got!r}, first match holds {val_of(first)!r}')
            except KeyError:
                if first is not None:
                    eff.v('C10', 'map_get', step, f'{what}: KeyError although the key exists')
                else:
                    eff.fault = 'F3_missing_key'
                    eff.outcome = 'raised'
            return eff
        if kind == 'contains':
            eff.noop_expected = True
            if (key in w) != (first is not None):
                eff.v('C10', 'map_contains', step, f'{what}: `in` gives {key in w}')
            return eff
        if kind == 'views':
            eff.noop_expected = True
            ks, vs, its = list(w.keys()), list(w.values()), list(w.items())
            if ks != [it.key for it in items] or list(reversed(w.keys())) != [it.key for it in reversed(items)]:
                eff.v('C10', 'map_keys', step, f'{what}: keys() = {ks}, raw list says {[it.key for it in items]}')
            if not all(_val_eq(a, val_of(b)) for a, b in zip(vs, items)) or len(vs) != len(items):
                eff.v('C10', 'map_values', step, f'{what}: values() disagree with the raw list')
            if [k for k, _ in its] != [it.key for it in items] or len(w) != len(items):
                eff.v('C10', 'map_items', step, f'{what}: items()/len disagree with the raw list')
            return eff
        if kind == 'set':
            w[key] = v
        elif kind == 'del':
            del w[key]
        elif kind == 'pop':
            got = w.pop(key)
        elif kind == 'pop_default':
            got = w.pop(key, 'DEFAULT')
    except KeyError as e:
        eff.exc = e
        eff.outcome = 'raised'
        if first is None and kind in ('del', 'pop'):
            eff.fault = 'F3_missing_key'
            return eff
        eff.v('C10', 'map_keyerror', step, f'{what}: KeyError although the key exists')
        return eff
    except Unresolvable:
        raise
    except ARITH_ERRORS:
        raise Unresolvable('value of a ledger expression is undefined')
    except Exception as e:
        eff.exc = e
        eff.outcome = 'raised'
        if op.get('fault', '').startswith('F1'):
            eff.fault = op['fault']
            return eff
        eff.v('C10', 'unexpected_exception', step, f'{what}: raised {type(e).__name__}: {e}')
        return eff
    consume_donors(sess, recipes)
    if kind in ('del', 'pop') and first is None:
        eff.v('C10', 'missing_exception', step, f'{what}: no KeyError for a missing key')
        return eff
    now = view_expected(owner, mname)
    # ordered first-match mapping semantics
    if kind == 'set':
        if is_raw:
            exp = [v if it is first else it for it in items] if first is not None else items + [v]
            if not same_seq(now, exp):
                eff.v('C10', 'map_set', step, f'{what}: raw list is {_short(now)}, expected {_short(exp)}')
            sess.recent.append(v)
        else:
            if first is not None:
                if not same_seq(now, items):
                    eff.v('C10', 'map_set', step, f'{what}: item list changed although the key existed')
                tgt = first
            else:
                if len(now) != len(items) + 1 or not same_seq(now[:-1], items):
                    eff.v('C10', 'map_set', step, f'{what}: new key was not appended as the last item')
                    return eff
                tgt = now[-1]
                if tgt.key != key:
                    eff.v('C10', 'map_set', step, f'{what}: appended item has key {tgt.key!r}')
                # C18: indentation of the created item
                if sib_indents:
                    if len(set(sib_indents)) == 1 and tgt.indent != sib_indents[0]:
                        eff.v('C18', 'meta_indent_siblings', step, f'{what}: new item indent {tgt.indent!r}, existing siblings share {sib_indents[0]!r}')
                    elif tgt.indent not in sib_indents:
                        eff.v('C18', 'meta_indent_siblings', step, f'{what}: new item indent {tgt.indent!r} is none of the sibling indents {sorted(set(sib_indents))!r}')
                elif indent_by is not None and tgt.indent != parent_indent + indent_by:
                    eff.v('C18', 'meta_indent_default', step, f'{what}: new item indent {tgt.indent!r}, parent indent {parent_indent!r} + indent_by {indent_by!r} expected')
                sess.recent.append(tgt)
            got_v = tgt.value
            if not _val_eq(got_v, v):
                eff.v('C09', 'meta_readback', step, f'{what}: value reads {got_v!r} after assigning {v!r}')
            try:
                if not _val_eq(w[key], v if first is None or True else v):
                    eff.v('C09', 'meta_readback', step, f'{what}: mapping lookup reads {w[key]!r} after assigning {v!r}')
            except KeyError:
                eff.v('C10', 'map_set', step, f'{what}: key missing right after assignment')
    else:
        exp = [it for it in items if it is not first] if first is not None else items
        if not same_seq(now, exp):
            eff.v('C10', f'map_{kind}', step, f'{what}: item list is {_short(now)}, expected {_short(exp)}')
        if kind in ('pop', 'pop_default'):
            if first is None:
                if got != 'DEFAULT':
                    eff.v('C10', 'map_pop', step, f'{what}: default not returned for a missing key')
            elif is_raw:
                if got is not first:
                    eff.v('C10', 'map_pop', step, f'{what}: returned another item')
                else:
                    sess.pool.append(got)
            else:
                if isinstance(got, models.RawModel):
                    sess.pool.append(got)
    # existing lines keep their indentation (C18)
    for it, ind in zip(items, sib_indents):
        if it.indent != ind:
            eff.v('C18', 'existing_indent_changed', step, f'{what}: indent of existing item {it.key!r} changed {ind!r} -> {it.indent!r}')
            break
    # C03 windows
    raw_after = list(getattr(owner, raw_member))
    after = store_tokens(owner)
    sp_a = span_in(_index(after), owner)
    old_item_ids = {id(x) for x in raw_before}
    new_item_ids = {id(x) for x in raw_after}
    removed_ids: set = set()
    for x in raw_before:
        if id(x) not in new_item_ids:
            removed_ids |= {id(t) for t in W.leaves(x)}
    new_ids: set = set()
    for x in raw_after:
        if id(x) not in old_item_ids:
            new_ids |= ids_of(x)
    inplace: set = set()
    if kind == 'set' and not is_raw and first is not None:
        # the value child of the existing item may be replaced: the affected child is that item
        inplace = ids_of(first)
    sibs = sibling_snapshot(owner, {slot})
    before_index = {id(t): (t, txt) for t, txt in before}
    for x in raw_after:
        if id(x) in old_item_ids and not (kind == 'set' and x is first):
            try:
                sibs.append((f'{mname} item', [before_index[id(t)] for t in x.tokens if id(t) in before_index]))
            except Exception:
                pass
    if kind == 'set' and not is_raw and first is not None:
        # old tokens of the item's value that were removed are detached now; accept removals that were inside the item
        removed_ids |= first_ids_before
        new_ids |= ids_of(first)
    check_child_edit(eff, step, 'C03', before, after, sp_b, sp_a, removed_ids | inplace, new_ids | inplace, sibs, what)
    return eff


# ==========================================================================
# R: reads (C04)

def read_everything(node: Any) -> Optional[str]:
    """Reads every public non-callable attribute, views, print, eq, hash, repr."""
    for name in dir(type(node)):
        if name.startswith('_'):
            continue
        try:
            val = getattr(node, name)
        except ARITH_ERRORS:
            continue
        except NotImplementedError:
            continue
        if callable(val) and not hasattr(val, '__len__'):
            continue
        if isinstance(val, collections.abc.MutableSequence):
            try:
                n = len(val)
                xs = list(val)
                list(reversed(val)) if hasattr(val, '__reversed__') or hasattr(val, '__getitem__') else None
                if n:
                    val[0], val[-1], val[0:n:2]
                    xs[0] in val
                val == xs
                if hasattr(val, 'keys'):
                    list(val.keys()), list(val.values()), list(val.items())
            except ARITH_ERRORS:
                pass
    print_model(node)
    node.tokens
    node == node
    repr(node)
    if isinstance(node, models.RawTokenModel):
        hash(node)
    else:
        try:
            list(node.iter_children_formatted())
        except NotImplementedError:
            pass
    node.first_token, node.last_token, node.token_store
    return None


def exec_read(sess: Session, op: dict, step: int) -> Effect:
    node = sess.resolve(op['t'])
    eff = Effect('read', 'R', type(node).__name__)
    eff.noop_expected = True
    eff.touched = set()
    try:
        read_everything(node)
    except Exception as e:
        eff.exc = e
        eff.outcome = 'raised'
        eff.v('C04', 'read_raises', step, f'reading attributes of {type(node).__name__} raised {type(e).__name__}: {e}')
    return eff


# ==========================================================================
# C: comment attribution (C14, C04)

def _parser_like_blocks(root: Any) -> bool:
    """Every entry that has indented children also has the dedent mark the parser would have given it."""
    for _, node in W.iter_nodes(root):
        if isinstance(node, models.RawTokenModel) or not hasattr(type(node), '_dedent_mark'):
            continue
        has_children = any(isinstance(c, I.Repeated) and c.items for name, kind, c in W.children(node) if name in ('_meta', '_postings'))
        if has_children and node._dedent_mark is None:
            return False
    return True


def _skip(succ: Any, t: Any, pred: Any) -> Any:
    """Steps over tokens satisfying pred.  A store whose navigation does not make progress (get_prev(t) is t)
    must not hang the harness: the walk gives up and the store invariants report the corruption."""
    seen = 0
    while t is not None and pred(t):
        nxt = succ(t)
        seen += 1
        if nxt is t or seen > 100000:
            raise Unresolvable('token navigation does not make progress')
        t = nxt
    return t


def _adjacent_token(obj: Any, side: str) -> Any:
    """The token exactly one newline away from the model's content edge (zero-width tokens aside),
    which is where claim_*_comment looks; None if the edge is not followed by a single newline."""
    st = obj.token_store
    kids = [c for name, kind, c in W.children(obj) if c is not None and name not in ('_leading_comment', '_trailing_comment')]
    if not kids or st is None:
        return None
    succ = st.get_prev if side == 'leading' else st.get_next
    edge = kids[0].first_token if side == 'leading' else kids[-1].last_token
    t = _skip(succ, succ(edge), lambda x: not x.raw_text)
    if not isinstance(t, models.Newline) or t.raw_text.count('\n') != 1:
        return None
    return _skip(succ, succ(t), lambda x: not x.raw_text)


def _adjacent_over_placeholders(obj: Any, side: str) -> Any:
    """The token one single newline away from the model's first / last token with nothing but field
    placeholders in between.  (Dedent and end-of-line marks of a neighbouring block are structure, not
    layout: a comment behind them is not "directly" above or below, and such cases are not judged.)"""
    st = obj.token_store
    if st is None:
        return None
    succ = st.get_prev if side == 'leading' else st.get_next
    t = _skip(succ, succ(obj.first_token if side == 'leading' else obj.last_token), lambda x: isinstance(x, I.internal.Placeholder))
    if not isinstance(t, models.Newline) or t.raw_text.count('\n') != 1:
        return None
    return _skip(succ, succ(t), lambda x: isinstance(x, I.internal.Placeholder))


def _claimable_layout(obj: Any, comment: Any, side: str) -> bool:
    return comment is not None and _adjacent_token(obj, side) is comment


def exec_claim(sess: Session, op: dict, step: int) -> Effect:
    obj = sess.resolve(op['t'])
    how = op['how']
    eff = Effect('claim:' + how, 'C', type(obj).__name__)
    eff.noop_expected = True
    eff.touched = {sess.root_key(op['t'])}   # claiming permutes zero-width placeholders of that store
    root = None
    try:
        if how in ('claim_inter', 'unclaim_inter', 'reclaim_inter'):
            if not hasattr(obj, 'claim_interleaving_comments'):
                raise Unresolvable('not a comments wrapper')
            owner, _ = _owner_of(sess, op['t'])
            root = _root_node(sess, owner)
            subset = None
            if 'subset' in op:
                toks = list(owner.token_store)
                subset = [toks[i] for i in op['subset'] if i < len(toks) and isinstance(toks[i], BlockComment)]
                if not subset:
                    raise Unresolvable('subset gone')
            if 'foreign' in op:
                subset = (subset or []) + [make_donor(sess, op['foreign'])]
            before_map = W.ownership_map(root) if root is not None else None
            if how == 'claim_inter':
                got_c = obj.claim_interleaving_comments(subset)
                if got_c:
                    sess.last_unclaimed = got_c[-1]
            elif how == 'unclaim_inter':
                got_c = obj.unclaim_interleaving_comments(subset)
                if got_c:
                    sess.last_unclaimed = got_c[-1]
            else:
                un = obj.unclaim_interleaving_comments(subset)
                if un:
                    sess.last_unclaimed = un[-1]
                try:
                    span_ids = {id(t) for t in owner.tokens}
                except Exception:
                    span_ids = set()
                if un and any(id(c) not in span_ids for c in un):
                    # a comment at the very edge left the owner's span when it lost its owner (e.g. an entry
                    # without an indented block): claim_interleaving_comments searches the model only
                    sess.stats['reclaim_skipped_comment_left_span'] += 1
                elif un:
                    try:
                        obj.claim_interleaving_comments(un)
                    except ValueError as e:
                        eff.v('C14', 'unclaim_claim_restores', step, f'claim_interleaving_comments of the comments just unclaimed was refused: {e}')
                        return eff
                    if root is not None and W.ownership_map(root) != before_map:
                        eff.v('C14', 'unclaim_claim_restores', step, 'unclaim_interleaving_comments followed by claim of the same comments changed the attribution')
        elif how == 'auto':
            obj.auto_claim_comments()
        elif how == 'auto_twice':
            obj.auto_claim_comments()
            root = _root_node(sess, obj)
            m1 = W.ownership_map(root) if root is not None else None
            t1 = [id(t) for t in store_tokens(obj)]
            obj.auto_claim_comments()
            if root is not None and W.ownership_map(root) != m1:
                if not _parser_like_blocks(root):
                    # an entry that got indented children by editing has no dedent mark: its span ends at the
                    # last child, so a child's claim moves the point from which the entry looks for its own
                    # trailing comment; no parsed layout has this shape (the clause is about layouts)
                    sess.stats['auto_idempotence_skipped_no_dedent_mark'] += 1
                else:
                    eff.v('C14', 'auto_idempotent', step, 'second auto_claim_comments() changed the attribution')
        else:
            if not isinstance(obj, I.internal.SurroundingCommentsMixin):
                raise Unresolvable('no surrounding comments')
            side = 'leading' if 'leading' in how else 'trailing'
            root = _root_node(sess, obj)
            if how.startswith('claim'):
                cand = None
                if getattr(obj, f'raw_{side}_comment') is None:
                    cand = _adjacent_over_placeholders(obj, side)
                    own = getattr(obj, 'indent', '')
                    if not isinstance(cand, BlockComment) or cand.claimed or bool(cand.indent) != bool(own if isinstance(own, str) else ''):
                        cand = None
                got = getattr(obj, f'claim_{side}_comment')(ignore_if_already_claimed=op.get('ignore', False))
                if cand is not None:
                    sess.stats['probe:claim_with_adjacent_free_comment'] += 1
                    if got is not cand:
                        eff.v('C14', 'claim_misses_adjacent', step,
                              f'claim_{side}_comment on {type(obj).__name__} returned {got!r} although the unowned comment {cand.raw_text!r} '
                              f'is directly {"above" if side == "leading" else "below"} it with the same indentation')
                if got is not None:
                    sess.last_unclaimed = got      # (now claimed: the generator may have its new owner release it)
                if got is not None and getattr(obj, f'raw_{side}_comment') is not got:
                    eff.v('C14', 'claim_result', step, f'claim_{side}_comment returned a comment that is not raw_{side}_comment')
            elif how.startswith('unclaim'):
                got = getattr(obj, f'unclaim_{side}_comment')()
                if got is not None:
                    sess.last_unclaimed = got
                if getattr(obj, f'raw_{side}_comment') is not None:
                    eff.v('C14', 'unclaim_result', step, f'raw_{side}_comment still set after unclaim')
                if got is not None and got.claimed:
                    eff.v('C14', 'unclaim_result', step, 'unclaimed comment still flagged claimed')
            else:
                before_map = W.ownership_map(root) if root is not None else None
                cur = getattr(obj, f'raw_{side}_comment')
                own_ind = getattr(obj, 'indent', '')
                if cur is not None and not _claimable_layout(obj, cur, side):
                    # spacing/indent overrides moved the comment away from where claiming looks: not judged
                    sess.stats['reclaim_skipped_layout'] += 1
                    eff.outcome = 'skipped'
                    return eff
                got = getattr(obj, f'unclaim_{side}_comment')()
                if got is not None and bool(got.indent) != bool(own_ind if isinstance(own_ind, str) else ''):
                    sess.stats['reclaim_skipped_foreign_indent'] += 1
                elif got is not None:
                    try:
                        back = getattr(obj, f'claim_{side}_comment')()
                    except ValueError as e:
                        eff.v('C14', 'unclaim_claim_restores', step, f'claim_{side}_comment right after unclaim_{side}_comment was refused: {e}')
                        return eff
                    if back is not got:
                        eff.v('C14', 'unclaim_claim_restores', step, f'unclaim_{side}_comment then claim_{side}_comment claimed a different comment')
                    elif root is not None and W.ownership_map(root) != before_map:
                        eff.v('C14', 'unclaim_claim_restores', step, f'unclaim then claim of the {side} comment changed the attribution')
    except Unresolvable:
        raise
    except ValueError as e:
        eff.exc = e
        eff.outcome = 'raised'
        eff.fault = 'F5_comment_refusal'
    except Exception as e:
        eff.exc = e
        eff.outcome = 'raised'
        eff.v('C14', 'unexpected_exception', step, f'{how} on {type(obj).__name__} raised {type(e).__name__}: {e}')
    return eff


# ==========================================================================
# S: spacing (C17)

def _spacing_run_ok(toks: list, idx: dict, node: Any, run: tuple, side: str) -> Optional[str]:
    if any(not isinstance(t, (models.Whitespace, models.Newline)) for t in run):
        return 'returned tokens are not all Whitespace/Newline'
    pos = [idx.get(id(t)) for t in run]
    if any(p is None for p in pos):
        return 'returned a token that is not in the store'
    if any(b != a + 1 for a, b in zip(pos, pos[1:])):
        # strictly consecutive: a zero-width mark inside the run would be destroyed by the setter's splice
        return 'returned tokens are not a contiguous ordered run'
    if side == 'before':
        edge = idx.get(id(node.first_token))
        if edge is None:
            return None
        if run:
            if not all(not toks[j].raw_text for j in range(pos[-1] + 1, edge)):
                return 'run is separated from the model by visible text'
            j = pos[0] - 1
        else:
            j = edge - 1
            while j >= 0 and not toks[j].raw_text:
                j -= 1
        if j >= 0 and isinstance(toks[j], (models.Whitespace, models.Newline)) and toks[j].raw_text:
            return f'run stops in front of further spacing {toks[j].raw_text!r}'
    else:
        edge = idx.get(id(node.last_token))
        if edge is None:
            return None
        if run:
            if not all(not toks[j].raw_text for j in range(edge + 1, pos[0])):
                return 'run is separated from the model by visible text'
            j = pos[-1] + 1
        else:
            j = edge + 1
            while j < len(toks) and not toks[j].raw_text:
                j += 1
        if j < len(toks) and isinstance(toks[j], (models.Whitespace, models.Newline)) and toks[j].raw_text:
            return f'run stops in front of further spacing {toks[j].raw_text!r}'
    return None


def exec_spacing(sess: Session, op: dict, step: int) -> Effect:
    node = sess.resolve(op['t'])
    if not hasattr(node, 'spacing_before') or isinstance(node, models.File):
        raise Unresolvable('no spacing accessors')
    side = op['side']
    eff = Effect('spacing_' + ('read' if op.get('read_only') else 'write'), 'S', type(node).__name__)
    eff.touched = {sess.root_key(op['t'])}
    store = node.token_store
    if store is None:
        eff.outcome = 'skipped'
        return eff
    root = _root_node(sess, node)
    if root is not None and root is node:
        eff.outcome = 'skipped'   # the whole document / whole pool member: not covered by the statement
        return eff
    toks = list(store)
    idx = _index(toks)
    try:
        run = tuple(getattr(node, f'raw_spacing_{side}'))
        text = getattr(node, f'spacing_{side}')
    except Exception as e:
        eff.v('C17', 'read_raises', step, f'spacing_{side} of {type(node).__name__} raised {type(e).__name__}: {e}')
        return eff
    bad = _spacing_run_ok(toks, idx, node, run, side)
    if bad:
        # recorded, but the operation goes on: what the write then does to the tree is C05's business
        eff.v('C17', 'read_run', step, f'{type(node).__name__}.raw_spacing_{side}: {bad}')
    if text != text_of(list(run)):
        eff.v('C17', 'read_text', step, f'spacing_{side} {text!r} is not the text of raw_spacing_{side}')
    if op.get('read_only'):
        eff.noop_expected = True
        return eff
    new = op['v']
    before = [(t, t.raw_text) for t in toks]
    old_text = text_of(toks)
    try:
        if op.get('raw'):
            setattr(node, f'raw_spacing_{side}', tuple(I.internal.spacing_accessors._text_to_tokens(new)))
        else:
            setattr(node, f'spacing_{side}', new)
    except Exception as e:
        eff.exc = e
        eff.outcome = 'raised'
        eff.v('C17', 'write_raises', step, f'spacing_{side} = {new!r} on {type(node).__name__} raised {type(e).__name__}: {e}')
        return eff
    after = list(store)
    d = Diff(before, after)
    if not d.order_preserved(False) or d.changed:
        eff.v('C17', 'write_order', step, 'spacing assignment re-ordered or altered surviving tokens')
        return eff
    for i in d.removed:
        if not isinstance(before[i][0], (models.Whitespace, models.Newline)):
            eff.v('C17', 'write_removed_nonblank', step, f'spacing assignment removed {before[i][1]!r}')
            return eff
    for i in d.added:
        if not isinstance(after[i], (models.Whitespace, models.Newline)):
            eff.v('C17', 'write_added_nonblank', step, f'spacing assignment added {after[i].raw_text!r}')
            return eff
    new_text = text_of(after)

    def nonblank(s):
        return [c for c in s if c not in ' \t\r\n']
    if nonblank(new_text) != nonblank(old_text):
        eff.v('C17', 'write_nonblank_text', step, 'non-blank characters of the document changed')
    if len(new_text) - len(old_text) != len(new) - len(text):
        eff.v('C17', 'write_length', step, f'length changed by {len(new_text) - len(old_text)}, expected {len(new) - len(text)} ({text!r} -> {new!r})')
    if new:
        got = getattr(node, f'spacing_{side}')
        if got != new:
            eff.v('C17', 'write_readback', step, f'spacing_{side} reads {got!r} after assigning {new!r}')
    return eff


# ==========================================================================
# D / K / H

def exec_deepcopy(sess: Session, op: dict, step: int) -> Effect:
    node = sess.resolve(op['t'])
    eff = Effect('deepcopy', 'D', type(node).__name__)
    eff.noop_expected = True
    eff.touched = set()
    try:
        text = print_model(node)
        cp = copy.deepcopy(node)
    except Exception as e:
        eff.exc = e
        eff.outcome = 'raised'
        eff.v('C11', 'copy_raises', step, f'deepcopy of {type(node).__name__} raised {type(e).__name__}: {e}')
        return eff
    if not (cp == node) or not (node == cp):
        eff.v('C11', 'copy_equal', step, f'deep copy of {type(node).__name__} does not compare equal to the original')
        eff.v('C20', 'copy_equal', step, f'deep copy of {type(node).__name__} does not compare equal to the original')
    if print_model(cp) != text:
        eff.v('C11', 'copy_text', step, f'deep copy prints {print_model(cp)!r}, original spans {text!r}')
    if ids_of(cp) & ids_of(node) or (cp.token_store is not None and cp.token_store is node.token_store):
        eff.v('C11', 'copy_shares_tokens', step, 'deep copy shares tokens or the store with the original')
    if W.struct_fp(cp) != W.struct_fp(node):
        eff.v('C11', 'copy_structure', step, 'deep copy has a different tree structure')
    try:
        st = cp.token_store
        if isinstance(cp, models.RawTreeModel) and st is not None:
            n_store, n_span = len(list(st)), len(cp.tokens)
            if cp.first_token is not st.get_first() or cp.last_token is not st.get_last() or n_store != n_span:
                eff.v('C11', 'copy_not_self_contained', step,
                      f'deep copy of {type(node).__name__} spans {n_span} token(s) of a store holding {n_store}: not a complete tree in its own store')
    except Exception as e:
        eff.v('C11', 'copy_not_self_contained', step, f'deep copy of {type(node).__name__} cannot be inspected: {type(e).__name__}: {e}')
    try:
        fa = [(t.raw_text, t.claimed) for t in node.tokens if isinstance(t, BlockComment)]
        fb = [(t.raw_text, t.claimed) for t in cp.tokens if isinstance(t, BlockComment)]
        if fa != fb:
            eff.v('C11', 'copy_comment_flags', step, f'deep copy is not exact: comment ownership flags {fb} in the copy, {fa} in the original')
    except Exception:
        pass
    _check_copy_under_shared_memo(eff, step, node, text)
    sess.pool.append(cp)
    sess.stats['pool:copies'] += 1
    return eff


def _check_copy_under_shared_memo(eff: Effect, step: int, node: Any, text: str) -> None:
    """C11 when the model is copied as part of a container that also holds one of its own sub-models
    (one memo for both, as in copy.deepcopy([txn, txn.postings[0]])): each element is still an equal,
    exact and independent copy.  Draws nothing from the PRNG and adds nothing to the pool."""
    if not isinstance(node, models.RawTreeModel):
        return
    sub = None
    try:
        for path, n in W.iter_nodes(node):
            if path and isinstance(n, models.RawTreeModel) and n.token_store is not None:
                sub = n
                break
    except Exception:
        return
    if sub is None:
        return
    try:
        sub_text = print_model(sub)
        cps = copy.deepcopy([node, sub])
    except Exception as e:
        eff.v('C11', 'copy_raises', step,
              f'deepcopy of [{type(node).__name__}, its {type(sub).__name__}] raised {type(e).__name__}: {e}')
        return
    for orig, otext, c in ((node, text, cps[0]), (sub, sub_text, cps[1])):
        if not (c == orig) or print_model(c) != otext:
            eff.v('C11', 'copy_text', step,
                  f'{type(orig).__name__} copied inside a container together with an overlapping model is not an equal, exact copy')
            return
        if ids_of(c) & ids_of(node):
            eff.v('C11', 'copy_shares_tokens', step, 'a copy made inside a container shares tokens with the original')
            return
    if ids_of(cps[0]) & ids_of(cps[1]) and cps[0].token_store is not cps[1].token_store:
        eff.v('C11', 'copy_shares_tokens', step, 'two copies made under one memo share tokens across different stores')


def exec_construct(sess: Session, op: dict, step: int) -> Effect:
    eff = Effect('construct', 'K', '')
    eff.noop_expected = True
    node = make_donor(sess, op['v'])
    eff.target = type(node).__name__
    sess.pool.append(node)
    _check_constructed_meta_indent(eff, step, node, op['v'])
    return eff


def _check_constructed_meta_indent(eff: Effect, step: int, node: Any, recipe: Any) -> None:
    """C18 for the constructor route: meta items made from a plain mapping have no siblings, so each takes
    the parent's own indentation followed by the parent's indent_by."""
    if not isinstance(recipe, dict) or 'from_value' not in recipe:
        return
    args = recipe['args']
    if args.get('meta'):
        parent_indent = args.get('indent', '') if isinstance(args.get('indent', ''), str) else ''
        indent_by = args.get('indent_by', '    ')
        try:
            items = [it for it in node.raw_meta_with_comments if isinstance(it, models.MetaItem)]
        except Exception:
            items = []
        for it in items:
            if it.indent != parent_indent + indent_by:
                eff.v('C18', 'meta_indent_default', step,
                      f'{type(node).__name__}.from_value(indent={parent_indent!r}, indent_by={indent_by!r}, meta=...): item {it.key!r} '
                      f'created with indent {it.indent!r}')
                return
        if getattr(node, 'indent_by', indent_by) != indent_by:
            eff.v('C18', 'meta_indent_default', step, f'{type(node).__name__}.from_value(indent_by={indent_by!r}) has indent_by {node.indent_by!r}')
    for sub_r, sub_n in zip(args.get('postings') or [], list(getattr(node, 'raw_postings', []) or [])):
        _check_constructed_meta_indent(eff, step, sub_n, sub_r)


def exec_handle(sess: Session, op: dict, step: int) -> Effect:
    owner = sess.resolve(op['t'])
    eff = Effect('handle', 'H', f'{type(owner).__name__}.{op["m"]}')
    eff.noop_expected = True
    if op['m'] not in I.members_of(owner):
        raise Unresolvable('no such member')
    view = getattr(owner, op['m'])
    sess.handles.append({'owner': owner, 'member': op['m'], 'view': view})
    return eff


def exec_arith(sess: Session, op: dict, step: int) -> Effect:
    import decimal as _d
    node = sess.resolve(op['t'])
    if not isinstance(node, models.NumberExpr):
        raise Unresolvable('not a NumberExpr')
    mode, o = op['mode'], op['o']
    eff = Effect(f'arith_{mode}', 'A', 'NumberExpr')
    eff.touched = {sess.root_key(op['t'])}
    r = op['r']
    if 'int' in r:
        other: Any = r['int']
        rv = _d.Decimal(r['int'])
    elif 'dec' in r:
        other = _d.Decimal(r['dec'])
        rv = other
    else:
        try:
            other = docbase_parser().parse(r['expr'], models.NumberExpr)
            rv = other.value
        except ARITH_ERRORS:
            raise Unresolvable('operand does not evaluate')
        except Exception as e:
            raise Unresolvable(f'operand rejected: {e}')
    try:
        lv = node.value
    except ARITH_ERRORS:
        raise Unresolvable('target does not evaluate')
    try:
        if mode == 'neg':
            expected = -lv
        else:
            a, b = (rv, lv) if mode == 'reflected' else (lv, rv)
            if o == '/' and b == 0:
                raise Unresolvable('zero divisor')
            expected = {'+': a + b, '-': a - b, '*': a * b, '/': (a / b) if o == '/' else None}[o]
    except ARITH_ERRORS:
        raise Unresolvable('arithmetic undefined')
    if mode != 'inplace':
        eff.noop_expected = True
    before = _before(node)
    sp_b = _span_before(before, node)
    old_ids = ids_of(node)
    try:
        if mode == 'neg':
            res = -node
        elif mode == 'plain':
            res = {'+': lambda: node + other, '-': lambda: node - other, '*': lambda: node * other, '/': lambda: node / other}[o]()
        elif mode == 'reflected':
            res = {'+': lambda: other + node, '-': lambda: other - node, '*': lambda: other * node, '/': lambda: other / node}[o]()
        else:
            x = node
            if o == '+':
                x += other
            elif o == '-':
                x -= other
            elif o == '*':
                x *= other
            else:
                x /= other
            res = x
    except Exception as e:
        eff.exc = e
        eff.outcome = 'raised'
        eff.v('C13', 'operator_raises', step, f'{mode} {o} on {print_model(node)!r} raised {type(e).__name__}: {e}')
        return eff
    try:
        got = res.value
    except ARITH_ERRORS:
        return eff
    if got != expected:
        eff.v('C13', 'result_value', step, f'{mode} {print_model(node)!r} {o} {r}: value {got}, arithmetic gives {expected}')
    if mode == 'inplace':
        if res is not node:
            eff.v('C13', 'inplace_identity', step, 'in-place operator returned another object')
        after = store_tokens(node)
        sp_a = span_in(_index(after), node)
        check_child_edit(eff, step, 'C03', before, after, sp_b, sp_a, old_ids, ids_of(node), [], f'in-place {o} on an attached expression')
    else:
        sess.pool.append(res)
    return eff


def docbase_parser():
    from .docbase import parser
    return parser()


def exec_eq_zombie(sess: Session, op: dict, step: int) -> Effect:
    zs = getattr(sess, 'zombies', [])
    if op['z'] >= len(zs):
        raise Unresolvable('no such deleted node')
    z = zs[op['z']]
    live = sess.resolve(op['t'])
    eff = Effect('eq_zombie', 'R', type(live).__name__)
    eff.noop_expected = True
    eff.touched = set()
    for a, b in ((z, live), (live, z), (z, z)):
        try:
            a == b      # may raise on a node whose tokens left the store; that is the library's documented behaviour
        except Exception:
            sess.stats['eq_on_deleted_node_raised'] += 1
    return eff


EXEC = {
    'tok_value': exec_token, 'tok_raw': exec_token, 'comment_indent': exec_token,
    'set_raw': exec_set_raw, 'set_val': exec_set_val, 'seq': exec_seq, 'map': exec_map,
    'read': exec_read, 'claim': exec_claim, 'spacing': exec_spacing,
    'deepcopy': exec_deepcopy, 'construct': exec_construct, 'handle': exec_handle,
    'arith': exec_arith, 'eq_zombie': exec_eq_zombie,
}
