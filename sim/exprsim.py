"""exprsim (C13, and the arithmetic refusal F8 of C19): a pool of NumberExpr —
free-standing or attached inside a parsed document — under chains of operator
applications, against an independent recursive-descent evaluator (R_expr).
"""
from __future__ import annotations

import collections
import copy
import decimal
import random
import re
from typing import Any, Optional

from . import core
from . import docgen
from . import findings
from . import introspect as I
from . import storesim
from . import walker as W
from .docbase import Diff, dec, enc, enumerate_nodes, parser, print_model

models = I.models
Violation = core.Violation
D = decimal.Decimal

_NUM = re.compile(r'(?:[0-9]{1,3}(?:,[0-9]{3})+|[0-9]+)(?:\.[0-9]*)?')


class EvalError(Exception):
    pass


class _Skip(Exception):
    """The generated operation does not apply to the current state (never raised by library code)."""


def evaluate(text: str) -> decimal.Decimal:
    """Independent evaluator: usual precedence, left associativity, Decimal default context."""
    pos = 0
    n = len(text)

    def ws():
        nonlocal pos
        while pos < n and text[pos] in ' \t':
            pos += 1

    def atom() -> decimal.Decimal:
        nonlocal pos
        ws()
        if pos >= n:
            raise EvalError('unexpected end')
        c = text[pos]
        if c == '(':
            pos += 1
            v = expr()
            ws()
            if pos >= n or text[pos] != ')':
                raise EvalError('missing )')
            pos += 1
            return v
        if c in '+-':
            pos += 1
            v = atom()
            return -v if c == '-' else +v if False else (v if c == '+' else -v)
        m = _NUM.match(text, pos)
        if not m:
            raise EvalError(f'unexpected {c!r} at {pos}')
        pos = m.end()
        return D(m.group(0).replace(',', ''))

    def mul() -> decimal.Decimal:
        nonlocal pos
        v = atom()
        while True:
            ws()
            if pos < n and text[pos] in '*/':
                op = text[pos]
                pos += 1
                r = atom()
                v = v * r if op == '*' else v / r
            else:
                return v

    def expr() -> decimal.Decimal:
        nonlocal pos
        v = mul()
        while True:
            ws()
            if pos < n and text[pos] in '+-':
                op = text[pos]
                pos += 1
                r = mul()
                v = v + r if op == '+' else v - r
            else:
                return v

    v = expr()
    ws()
    if pos != n:
        raise EvalError(f'trailing text at {pos}: {text[pos:]!r}')
    return v


class _DocOnly:
    """What findings predicates need from a session."""
    def __init__(self, root: Any):
        self.root = root


OPS = {'+': lambda a, b: a + b, '-': lambda a, b: a - b, '*': lambda a, b: a * b, '/': lambda a, b: a / b}


class ExprSim(core.Engine):
    name = 'exprsim'

    def _resolve(self, st: dict, ref: Any) -> Any:
        if 'free' in ref:
            k = ref['free']
            if k >= len(st['free']) or st['free'][k] is None:
                raise _Skip('free expr gone')
            return st['free'][k]
        obj = st['doc']
        for step in ref['doc']:
            obj = obj[step] if isinstance(step, int) else getattr(obj, step)
            if obj is None:
                raise _Skip('path gone')
        if not isinstance(obj, models.NumberExpr):
            raise _Skip('not a NumberExpr any more')
        return obj

    def _doc_exprs(self, doc: Any) -> list[list]:
        return [path for path, node in enumerate_nodes(doc, []) if isinstance(node, models.NumberExpr)]

    def _check_parsed(self, e: Any, text: str, step: int, what: str) -> list[Violation]:
        try:
            exp = evaluate(text)
        except (EvalError, decimal.DecimalException, ZeroDivisionError):
            return []
        try:
            got = e.value
        except (decimal.DecimalException, ZeroDivisionError):
            return []
        if got != exp:
            return [Violation('C13', 'parsed_value', step, f'{what}: value of {text!r} is {got}, arithmetic gives {exp}')]
        return []

    @core.stuck_guard
    def _execute(self, trace: dict, prop: str, rng: Optional[random.Random]) -> core.RunResult:
        knobs = trace['knobs']
        storesim.set_load_factor(knobs['load_factor'])
        stats: collections.Counter = collections.Counter()
        log: list = [{'knobs': knobs, 'doc': core.sha(trace['doc']), 'free': trace['free']}]
        res = core.RunResult(trace=trace, violations=[], stats=stats, log=log)
        try:
            doc = parser().parse(trace['doc'], models.File)
            free = [parser().parse(t, models.NumberExpr) for t in trace['free']]
        except Exception:
            res.skipped = 'docgen_rejected'
            return res
        st = {'doc': doc, 'free': free, 'known': res.known_hits, 'foreign': res.foreign}
        V: list[Violation] = []
        # parsed values agree with independent evaluation
        for t, e in zip(trace['free'], free):
            V.extend(self._check_parsed(e, t, 0, 'free expression'))
        for path in self._doc_exprs(doc):
            e = self._resolve(st, {'doc': path})
            V.extend(self._check_parsed(e, print_model(e), 0, 'expression in document'))
        sig: list[str] = []
        ops = trace['ops']
        step = 0
        n_ops = knobs['n_ops']
        while not V:
            if rng is not None:
                if step >= n_ops:
                    break
                op = self._gen(rng, st)
                if op is None:
                    break
                ops.append(op)
            else:
                if step >= len(ops):
                    break
                op = ops[step]
            try:
                V = self._apply(st, op, step, stats, sig)
            except _Skip:
                stats['op_skipped_unresolvable'] += 1
                V = []
            except core.HarnessError:
                raise
            except Exception:
                if not res.foreign:
                    raise
                break      # state already known to be corrupt
            res.relevant_ops += 1
            log.append({'n': step, 'op': op.get('o'), 'mode': op.get('mode'), 'doc': core.sha(print_model(doc))})
            step += 1
        res.violations = V
        res.history_sig = core.sha(' '.join(sig))
        res.states.update(core.sha(print_model(e)) for e in st['free'] if e is not None)
        return res

    def _gen(self, rng: random.Random, st: dict) -> Optional[dict]:
        doc_paths = self._doc_exprs(st['doc'])
        frees = [k for k, e in enumerate(st['free']) if e is not None]

        def pick_expr(allow_doc: bool = True):
            if doc_paths and allow_doc and (not frees or rng.random() < 0.4):
                return {'doc': rng.choice(doc_paths)}
            if frees:
                return {'free': rng.choice(frees)}
            return None
        mode = rng.choice(['plain', 'plain', 'plain', 'inplace', 'inplace', 'reflected', 'unary'])
        left = pick_expr()
        if left is None:
            return None
        if mode == 'unary':
            return {'o': rng.choice(['+', '-']), 'mode': 'unary', 'l': left}
        o = rng.choice(['+', '-', '*', '/'])
        if mode == 'reflected':
            right = {'int': rng.choice([0, 1, 2, 3, -4, 10])} if rng.random() < 0.5 else {'dec': rng.choice(['0.5', '1.25', '-2', '100', '0', '3.333'])}
            return {'o': o, 'mode': mode, 'l': left, 'r': right}
        r = rng.random()
        if r < 0.2:
            right = {'int': rng.choice([0, 1, 2, 3, -4, 10])}
        elif r < 0.4:
            right = {'dec': rng.choice(['0.5', '1.25', '-2', '100', '0', '3.333'])}
        else:
            right = pick_expr()
            if rng.random() < 0.1:
                right = dict(left)       # the same object on both sides: x + x, x *= x
        return {'o': o, 'mode': mode, 'l': left, 'r': right}

    def _apply(self, st: dict, op: dict, step: int, stats, sig: list) -> list[Violation]:
        V: list[Violation] = []
        doc = st['doc']
        left = self._resolve(st, op['l'])
        mode, o = op['mode'], op['o']
        left_attached = 'doc' in op['l']
        doc_before = [(t, t.raw_text) for t in doc.token_store]
        doc_text_before = print_model(doc)
        doc_fp = W.fingerprint(doc)
        try:
            lv = left.value
        except (decimal.DecimalException, ZeroDivisionError):
            raise _Skip('left operand does not evaluate')
        l_text = print_model(left)
        l_fp = W.fingerprint(left)
        l_before = [(t, t.raw_text) for t in (left.token_store or [])]
        r_obj: Any = None
        r_attached = False
        r_free_idx = None
        if mode != 'unary':
            r = op['r']
            if 'int' in r:
                r_obj, rv = r['int'], D(r['int'])
            elif 'dec' in r:
                r_obj = D(r['dec'])
                rv = r_obj
            else:
                r_obj = self._resolve(st, r)
                r_attached = 'doc' in r
                r_free_idx = r.get('free')
                try:
                    rv = r_obj.value
                except (decimal.DecimalException, ZeroDivisionError):
                    raise _Skip('right operand does not evaluate')
            if r_obj is left:
                # x op x: ordinary arithmetic; in place the right-hand side is used, not consumed
                stats['same_object_both_sides'] += 1
                r_attached = False
                r_free_idx = None
            a, b = (rv, lv) if mode == 'reflected' else (lv, rv)
            if o == '/' and b == 0:
                stats['skipped_zero_divisor'] += 1
                raise _Skip('zero divisor')
            try:
                expected = OPS[o](a, b)
            except (decimal.DecimalException, ZeroDivisionError):
                raise _Skip('arithmetic undefined')
        else:
            expected = -lv if o == '-' else +lv
        r_is_expr = isinstance(r_obj, models.NumberExpr)
        r_text = print_model(r_obj) if r_is_expr else None
        r_fp = W.fingerprint(r_obj) if r_is_expr else None
        r_before = [(t, t.raw_text) for t in (r_obj.token_store or [])] if r_is_expr else None
        what = f'{mode} {l_text!r}{" (attached)" if left_attached else ""} {o} {r_text if r_is_expr else r_obj!r}{" (attached)" if r_attached else ""}'
        sig.append(f'{mode}{o}{"A" if left_attached else "F"}{("A" if r_attached else "F") if r_is_expr else "n"}')
        stats[f'mode:{mode}'] += 1
        stats[f'op:{o}'] += 1
        if left_attached:
            stats['left_attached'] += 1
        if r_attached:
            stats['right_attached'] += 1
        # ---- the call ---------------------------------------------------------------
        exc: Optional[BaseException] = None
        result: Any = None
        try:
            if mode == 'unary':
                result = -left if o == '-' else +left
            elif mode == 'plain':
                result = {'+': lambda: left + r_obj, '-': lambda: left - r_obj, '*': lambda: left * r_obj, '/': lambda: left / r_obj}[o]()
            elif mode == 'reflected':
                result = {'+': lambda: r_obj + left, '-': lambda: r_obj - left, '*': lambda: r_obj * left, '/': lambda: r_obj / left}[o]()
            else:
                x = left
                if o == '+':
                    x += r_obj
                elif o == '-':
                    x -= r_obj
                elif o == '*':
                    x *= r_obj
                else:
                    x /= r_obj
                result = x
        except Exception as e:
            exc = e

        def unchanged(before, obj, fp, label) -> Optional[str]:
            now = list(obj.token_store or [])
            d = Diff(before, now)
            if not d.unchanged():
                return f'{label} store changed ({len(d.removed)} removed, {len(d.added)} added, {len(d.changed)} changed): {"".join(t for _, t in before)!r} -> {"".join(t.raw_text for t in now)!r}'
            if W.fingerprint(obj) != fp:
                return f'{label} tree changed'
            return None

        if exc is not None:
            if mode == 'inplace' and r_attached and isinstance(exc, ValueError):
                # F8: an operand that cannot be consumed; must be a no-op
                stats['fault:F8_attached_operand_inplace'] += 1
                for msg in (unchanged(doc_before, doc, doc_fp, 'document'), unchanged(l_before, left, l_fp, 'left operand')):
                    if msg:
                        return [Violation('C19', 'refusal_not_noop', step, f'refused {what} ({exc}): {msg}')]
                return []
            V.append(Violation('C13', 'operator_raises', step, f'{what} raised {type(exc).__name__}: {exc}'))
            if not (mode == 'inplace'):
                msg = unchanged(doc_before, doc, doc_fp, 'document')
                if msg:
                    V.append(Violation('C13', 'operand_changed', step, f'{what} raised and {msg}'))
            return V
        if mode == 'inplace' and r_attached:
            return [Violation('C19', 'attached_node_accepted', step, f'{what}: in-place operator consumed an operand that lives in a document')]
        # ---- value ------------------------------------------------------------------
        if not isinstance(result, models.NumberExpr):
            return [Violation('C13', 'result_type', step, f'{what} returned {type(result).__name__}')]
        try:
            got = result.value
        except (decimal.DecimalException, ZeroDivisionError) as e:
            return [Violation('C13', 'result_value', step, f'{what}: result does not evaluate: {e}')]
        if got != expected:
            V.append(Violation('C13', 'result_value', step, f'{what}: result value {got}, arithmetic gives {expected} (result text {print_model(result)!r})'))
            return V
        text = print_model(result)
        try:
            ev = evaluate(text)
            if ev != expected:
                V.append(Violation('C13', 'printed_value', step, f'{what}: printed {text!r} evaluates to {ev}, expected {expected}'))
        except (EvalError, decimal.DecimalException, ZeroDivisionError) as e:
            V.append(Violation('C13', 'printed_value', step, f'{what}: printed {text!r} is not an arithmetic expression: {e}'))
        if not V:
            try:
                re_v = parser().parse(text, models.NumberExpr).value
                if re_v != expected:
                    V.append(Violation('C13', 'reparsed_value', step, f'{what}: printed {text!r} re-parses to {re_v}, expected {expected}'))
            except Exception as e:
                V.append(Violation('C13', 'reparsed_value', step, f'{what}: printed {text!r} does not parse: {str(e)[:100]}'))
        if V:
            return V
        tree = W.check_tree(result, step, standalone=not (mode == 'inplace' and left_attached), label='result')
        if tree:
            # C05's clause, reported by C05's check (exprsim is in its plan); this run goes on, because a
            # structurally wrong result may show up as a wrong value or text a few operator applications later
            if not any(x.clause == tree[0].clause for x in st['foreign']):
                st['foreign'].extend(tree[:1])
        # ---- operands -----------------------------------------------------------------
        if mode != 'inplace':
            for before, obj, fp, label in ((l_before, left, l_fp, 'left operand'), (r_before, r_obj, r_fp, 'right operand')):
                if obj is None or not isinstance(obj, models.NumberExpr):
                    continue
                msg = unchanged(before, obj, fp, label)
                if msg:
                    return [Violation('C13', 'operand_changed', step, f'{what}: {msg}')]
            msg = unchanged(doc_before, doc, doc_fp, 'document')
            if msg:
                return [Violation('C13', 'operand_changed', step, f'{what}: {msg}')]
            st['free'].append(result)
            if len([e for e in st['free'] if e is not None]) > 10:
                st['free'][next(i for i, e in enumerate(st['free']) if e is not None)] = None
        else:
            if r_free_idx is not None:
                st['free'][r_free_idx] = None    # consumed by the in-place operator
            if left_attached:
                # the document shows the new expression in place of the old one and nothing else changed
                now_text = print_model(doc)
                pos = {}
                off = 0
                for t, txt in doc_before:
                    pos[id(t)] = off
                    off += len(txt)
                try:
                    a = pos[l_first_id(l_fp)]
                    exp_text = doc_text_before[:a] + text + doc_text_before[a + len(l_text):]
                except Exception:
                    exp_text = None
                if exp_text is not None and now_text != exp_text:
                    return [Violation('C13', 'inplace_document_text', step, f'{what}: document text is not the old text with the expression replaced')]
                try:
                    parser().parse(now_text, models.File)
                except Exception as e:
                    v = Violation('C13', 'inplace_document_reparse', step, f'{what}: document no longer parses: {str(e)[:100]}')
                    fid = findings.match(v, _DocOnly(doc), op)
                    if fid:
                        stats[f'known:{fid}'] += 1
                        st['known'].append(fid)
                        return []
                    return [v]
                V.extend(W.check_tree(doc, step, standalone=True))
        return V

    def generate(self, rng: random.Random, prop: str, tier: str, run: int) -> core.RunResult:
        lay = docgen.Layout(rng, eol='lf')
        lay.comment_density = 0.0
        doc = docgen.gen_file(rng, rng.choice([1, 2, 3]), lay, kinds=['transaction', 'transaction', 'balance', 'price'])
        free = [docgen.expr_text(rng) for _ in range(rng.choice([1, 2, 3, 4]))]
        knobs = {'load_factor': rng.choice([2, 3, 5, 1000]), 'n_ops': rng.choice([1, 2, 3, 4, 6])}
        trace = {'knobs': knobs, 'doc': doc, 'free': free, 'ops': []}
        return self._execute(trace, prop, rng)

    def replay(self, trace: dict, prop: str) -> core.RunResult:
        return self._execute(copy.deepcopy(trace), prop, None)

    def shrink_candidates(self, trace: dict):
        if trace['knobs']['load_factor'] != 1000:
            yield dict(trace, knobs=dict(trace['knobs'], load_factor=1000))
        for i, t in enumerate(trace['free']):
            if t != '1':
                f = list(trace['free'])
                f[i] = '1'
                yield dict(trace, free=f)

    def describe(self) -> dict:
        return {'real_code': ['models.NumberExpr and its operator methods, NumberAddExpr/MulExpr/UnaryExpr/ParenExpr', 'parser.Parser', 'printer'],
                'stubs': [], 'seams': ['operands free-standing or attached in a parsed document', 'load factor per run']}


def l_first_id(fp: Any) -> int:
    """id of the first leaf token in a fingerprint tuple."""
    while True:
        if len(fp) == 3 and isinstance(fp[2], tuple):
            kids = [k for _, k in fp[2] if k is not None]
            fp = kids[0]
        else:
            return fp[1]
