"""docsim engine: one parsed document + pool of detached nodes + retained view
handles, driven by a seeded operation/fault stream; global invariants after
every step.  Serves C02 C03 C04 C05 C06 C08 C09 C10 C11 C14 C17 C18 C19 C20
(and the document half of C07)."""
from __future__ import annotations

import collections
import copy
import os
import random
from typing import Any, Optional

from . import core
from . import docgen
from . import introspect as I
from . import storesim
from . import walker as W
from .docbase import Diff, Session, Unresolvable, parser, print_model, text_of
from . import docops
from . import docexec
from . import docfaults
from . import findings

models = I.models
Violation = core.Violation
BlockComment = models.BlockComment

LOAD_FACTORS = [2, 3, 4, 5, 7, 10, 16, 64, 1000, 1000]

# op-class weights per property profile.  T token edits, N node-level, V value-level,
# R reads, C claims, S spacing, D deepcopy, K construct, H obtain handle, X mutate via
# retained handle, F refusal enumeration.
BASE = dict(T=2, N=3, V=3, R=1, C=1, S=1, D=1, K=0.5, H=0.7, X=0.7, F=0.0, A=0.4, Z=0.0)
PROFILES: dict[str, dict] = {
    'C02': dict(w=dict(BASE, T=8, N=1, V=1, S=0.5), relevant='T'),
    'C03': dict(w=dict(BASE, N=6, V=5, T=0.5), relevant='NV'),
    'C04': dict(w=dict(BASE, R=5, C=5, D=2, N=1, V=1, T=0.5, H=2), relevant='RCDH'),
    'C05': dict(w=dict(BASE, N=6, V=4, D=2, K=1.5, C=1.5, A=1.5), relevant='NVDKCXA', recent_bias=0.6),
    'C06': dict(w=dict(BASE, N=5, V=5, T=2, S=0, K=1, D=1, A=1), relevant='NVTA', syntax_safe=True, reparse=True),
    'C07': dict(w=dict(BASE, N=6, V=2, C=2, S=2, T=2), relevant='NVTCS', big_docs=True),
    'C08': dict(w=dict(BASE, T=6, N=4, V=3, S=2), relevant='NVTS', big_docs=True),
    'C09': dict(w=dict(BASE, V=9, N=1, T=1, S=0, K=0.3), relevant='V', syntax_safe=True, reparse=True,
                focus_classes=['CostSpec', 'Transaction'], cost_docs=True),
    'C10': dict(w=dict(BASE, N=4, V=5, H=3, X=5, C=2, T=0.5, S=0.2), relevant='NVXH', handles=True),
    'C11': dict(w=dict(BASE, D=5, N=3, V=3, C=2, T=2), relevant='D', pool_edits=0.45),
    'C14': dict(w=dict(BASE, C=8, N=2, V=2, T=0.5, S=0.5), relevant='C', comment_dense=True),
    'C17': dict(w=dict(BASE, S=8, C=1.5, N=1.5, V=1.5, T=1, A=1.5), relevant='S', adjacency=True),
    'C18': dict(w=dict(BASE, V=6, N=3, T=1, S=0.2, K=1.5), relevant='VN', focus_classes=['Transaction', 'Posting', 'MetaItem', 'Open', 'Balance'],
                indent_play=True),
    'C19': dict(w=dict(BASE, F=4, N=3, V=3, C=1.5, D=1.5, K=1), relevant='F'),
    'C20': dict(w=dict(BASE, N=3, V=3, T=3, C=3, D=1, Z=1.0, S=1.5), relevant='NVTCSDZ', eq=True),
}
REPARSE_PROPS = {'C06', 'C09'}


def live(node: Any) -> bool:
    """A node is live when its first token sits in the store the node names."""
    try:
        ft = node.first_token
        st = node.token_store
        if st is None:
            return isinstance(node, models.RawTokenModel)
        return ft.store_handle is not None and ft.store_handle.block.store is st
    except Exception:
        return False


def custom_ambiguous(root: Any) -> bool:
    """The documented `custom "x" 1 -2` caveat is present in the model."""
    for _, node in W.iter_nodes(root):
        if isinstance(node, models.Custom):
            vals = list(node.raw_values)
            for a, b in zip(vals, vals[1:]):
                if isinstance(a, (models.NumberExpr,)) or isinstance(a, models.Amount) and False:
                    num = b.raw_number if isinstance(b, models.Amount) else b if isinstance(b, models.NumberExpr) else None
                    if num is not None:
                        first = num.raw_number_add_expr.raw_operands[0].raw_operands[0]
                        if isinstance(first, models.NumberUnaryExpr):
                            return True
    return False


class DocSim(core.Engine):
    name = 'docsim'

    # -- invariants -------------------------------------------------------------
    def check_stores(self, sess: Session, step: int, touched: set) -> list[Violation]:
        V: list[Violation] = []
        for key, node in sess.roots():
            st = node.token_store
            if st is None:
                continue
            ref = list(st)
            n = len(ref)
            rng_pairs = [(0, n - 1), (n // 3, 2 * n // 3)] if n else []
            V.extend(Violation(v.prop, v.clause, step, f'{"doc" if key == "doc" else f"pool[{key}]"} store: {v.msg}')
                     for v in storesim.check_store(st, ref, [], step, rng_pairs, full=(n <= 600)))
            if V:
                break
        return V

    def check_views(self, sess: Session, step: int) -> list[Violation]:
        V: list[Violation] = []
        for key, root in sess.roots():
            if not isinstance(root, models.RawTreeModel):
                continue
            for _, node in W.iter_nodes(root):
                if isinstance(node, models.RawTokenModel) or isinstance(node, I.Repeated):
                    continue
                for name, m in I.members_of(node).items():
                    if m.kind in ('filtered_view', 'string_view', 'raw_meta_view', 'meta_view', 'custom_view'):
                        try:
                            got = list(getattr(node, name))
                            exp = docops.view_expected(node, name)
                        except docexec.ARITH_ERRORS:
                            continue
                        except Exception as e:
                            V.append(Violation('C10', 'view_read_raises', step, f'{type(node).__name__}.{name}: {type(e).__name__}: {e}'))
                            return V
                        if not docops.same_seq(got, exp):
                            V.append(Violation('C10', 'fresh_view', step,
                                               f'{type(node).__name__}.{name} reads {docexec._short(got)} but the raw list filtered now is {docexec._short(exp)}'))
                            return V
        for k, h in enumerate(sess.handles):
            if h is None:
                continue
            owner, member, view = h['owner'], h['member'], h['view']
            if not live(owner):
                sess.handles[k] = None
                sess.stats['handle_dropped_owner_gone'] += 1
                continue
            m = I.members_of(owner)[member]
            try:
                if m.kind in ('raw_repeated', 'raw_repeated_comments'):
                    if getattr(owner, member) is not view:
                        sess.handles[k] = None      # wrapper was replaced by assignment: not judged
                        sess.stats['handle_dropped_wrapper_replaced'] += 1
                        continue
                    slot = getattr(owner, m.slot)
                    exp = list(slot.items)
                else:
                    exp = docops.view_expected(owner, member)
                got = list(view)
                sess.stats['stale_handle_reads'] += 1
                ok = docops.same_seq(got, exp) and len(view) == len(exp)
                if ok and exp:
                    n = len(exp)
                    ok = docops.same_seq([view[-1], view[0], view[n // 2]], [exp[-1], exp[0], exp[n // 2]]) \
                        and docops.same_seq(list(view[::2]), exp[::2]) and docops.same_seq(list(view[-2:]), exp[-2:]) \
                        and docops.same_seq(list(reversed(view)), exp[::-1])
            except docexec.ARITH_ERRORS:
                continue
            except Exception as e:
                V.append(Violation('C10', 'handle_read_raises', step, f'retained {type(owner).__name__}.{member}: {type(e).__name__}: {e}'))
                return V
            if not ok:
                V.append(Violation('C10', 'retained_view', step,
                                   f'retained handle {type(owner).__name__}.{member} reads {docexec._short(got)} but the raw list filtered now is {docexec._short(exp)}'))
                return V
        return V

    def check_reparse(self, sess: Session, step: int, eff: Optional[docops.Effect]) -> list[Violation]:
        V: list[Violation] = []
        root = sess.root
        if any(isinstance(t, BlockComment) and not t.claimed for t in root.token_store):
            # an unowned comment is invisible to the model; text inserted next to it may merge with it.
            # Like C03 the clause speaks about documents whose comments are all attributed.  The exclusion is
            # sticky: what was inserted next to an unowned comment stays merged after the comment is claimed again.
            if eff is not None and not eff.noop_expected:
                sess.edited_with_unowned_comment = True
            sess.stats['reparse_skipped_unowned_comment'] += 1
            return V
        if getattr(sess, 'edited_with_unowned_comment', False):
            sess.stats['reparse_skipped_unowned_comment'] += 1
            return V
        text = print_model(root)
        props = ['C06'] + (['C09'] if eff is not None and eff.cls == 'V' else [])
        try:
            re = parser().parse(text, models.File)
        except Exception as e:
            if custom_ambiguous(root):
                sess.stats['waived_custom_ambiguity'] += 1
                return V
            for p in props:
                V.append(Violation(p, 'reparse_fails', step, f'printed document no longer parses: {str(e)[:160]!r}'))
            return V
        a, b = W.proj(root), W.proj(re)
        if a != b:
            if custom_ambiguous(root):
                sess.stats['waived_custom_ambiguity'] += 1
                return V
            d = W.first_diff(a, b)
            for p in props:
                V.append(Violation(p, 'model_text_mismatch', step, f'model vs re-parsed text differ at {d}'))
            return V
        ca, cb = W.comment_lines(root), W.comment_lines(re)
        if ca != cb:
            V.append(Violation('C06', 'comment_text', step, f'comment lines differ after re-parse: {ca[:6]} vs {cb[:6]}'))
        return V

    def check_initial(self, sess: Session) -> list[Violation]:
        """C14 parse-time clauses + sanity of the start state."""
        V: list[Violation] = []
        root = sess.root
        auto = sess.knobs.get('auto_claim', True)
        text = sess.text0
        if auto:
            un = [t for t in root.token_store if isinstance(t, BlockComment) and not t.claimed]
            if un:
                V.append(Violation('C14', 'parse_leaves_unowned', -1, f'default parsing left comment {un[0].raw_text!r} unowned'))
        # same attribution whether run by parse or later
        a = parser().parse(text, models.File, auto_claim_comments=True)
        b = parser().parse(text, models.File, auto_claim_comments=False)
        b.auto_claim_comments()
        ma, mb = W.ownership_map(a), W.ownership_map(b)
        if ma != mb:
            V.append(Violation('C14', 'late_claim_differs', -1, f'parse(auto) and parse(no auto)+auto_claim_comments() attribute differently: {ma[:4]} vs {mb[:4]}'))
        elif not (a == b) or not (b == a):
            V.append(Violation('C14', 'late_claim_unequal', -1, 'parse(auto) and parse(no auto)+auto_claim_comments() give unequal models'))
        else:
            V.extend(docfaults.check_attribution(a, text))
        return V

    def noop_check(self, sess: Session, snap: dict, step: int, what: str, prop: str, clause: str,
                   strict: bool) -> list[Violation]:
        """All stores present before are exactly as they were.  strict=False lets
        zero-width tokens move (claims) but no visible token may change."""
        V: list[Violation] = []
        for key, (node, store, before) in snap.items():
            cur_node = sess.root if key == 'doc' else (sess.pool[key] if key < len(sess.pool) else None)
            if cur_node is None:
                continue
            after = docops.store_tokens(cur_node)
            d = Diff(before, after)
            where = 'document' if key == 'doc' else f'pool[{key}]'
            if strict:
                if not d.unchanged():
                    V.append(Violation(prop, clause, step, f'{what}: {where} changed: removed {len(d.removed)} added {len(d.added)} changed {len(d.changed)} token(s); '
                                       f'text {text_of([t for t, _ in before])[:80]!r} -> {text_of(after)[:80]!r}'))
                    return V
            else:
                vis_b = [(id(t), txt) for t, txt in before if txt]
                vis_a = [(id(t), t.raw_text) for t in after if t.raw_text]
                if vis_b != vis_a:
                    V.append(Violation(prop, clause, step, f'{what}: visible tokens of {where} changed'))
                    return V
        return V

    def iso_check(self, sess: Session, snap: dict, step: int, touched: set, what: str) -> list[Violation]:
        for key, (node, store, before) in snap.items():
            if key in touched or None in touched:
                continue
            cur = sess.root if key == 'doc' else (sess.pool[key] if key < len(sess.pool) else None)
            if cur is None:
                continue
            after = docops.store_tokens(cur)
            vis_b = [(id(t), txt) for t, txt in before]
            vis_a = [(id(t), t.raw_text) for t in after]
            if vis_b != vis_a:
                where = 'document' if key == 'doc' else f'pool[{key}] ({type(cur).__name__})'
                return [Violation('C11', 'independence', step, f'{what} changed the store of {where}, which the operation did not address')]
        return []

    def check_adjacent_spacing(self, sess: Session, step: int) -> list[Violation]:
        """C17: adjacent models see the same run of spacing from their two sides."""
        root = sess.root
        for _, node in W.iter_nodes(root):
            if isinstance(node, models.RawTokenModel):
                continue
            kids = []
            for name, kind, c in W.children(node):
                if c is None:
                    continue
                if isinstance(c, I.Repeated):
                    kids.extend(c.items)
                else:
                    kids.append(c)
            kids = [k for k in kids if hasattr(k, 'raw_spacing_after')]
            for a, b in zip(kids, kids[1:]):
                try:
                    if not any(t.raw_text for t in a.tokens) or not any(t.raw_text for t in b.tokens):
                        continue    # zero-width marks have no side of their own
                    # Only when nothing visible but spacing lies strictly between them, the spacing is not
                    # interleaved with zero-width marks, and neither side reaches into the other model's span.
                    st = root.token_store
                    region = []
                    t = st.get_next(a.last_token)
                    while t is not None and t is not b.first_token and len(region) < 64:
                        region.append(t)
                        t = st.get_next(t)
                    if t is not b.first_token:
                        continue
                    if any(x.raw_text and not isinstance(x, (models.Whitespace, models.Newline)) for x in region):
                        continue
                    vis = [k for k, x in enumerate(region) if x.raw_text]
                    if not vis or any(not region[k].raw_text for k in range(vis[0], vis[-1] + 1)):
                        continue
                    expect = tuple(region[k] for k in vis)
                    ra, rb = tuple(a.raw_spacing_after), tuple(b.raw_spacing_before)
                except Exception:
                    continue
                for side, got in (('spacing_after of ' + type(a).__name__, ra), ('spacing_before of ' + type(b).__name__, rb)):
                    if len(got) != len(expect) or any(x is not y for x, y in zip(got, expect)):
                        return [Violation('C17', 'adjacent_models_disagree', step,
                                          f'{side} is {"".join(t.raw_text for t in got)!r} but the spacing between {type(a).__name__} and '
                                          f'{type(b).__name__} is {"".join(t.raw_text for t in expect)!r}')]
        return []

    def check_indents(self, sess: Session, snap: dict, step: int, what: str) -> list[Violation]:
        """C18: no existing line's indentation changes (Indent tokens that survive keep their text)."""
        for key, (node, store, before) in snap.items():
            for t, txt in before:
                if isinstance(t, models.Indent) and t.raw_text != txt and t.store_handle is not None:
                    return [Violation('C18', 'existing_indent_changed', step, f'{what}: an existing indent changed {txt!r} -> {t.raw_text!r}')]
        return []

    def eq_check(self, sess: Session, S: Any, step: int, eff: docops.Effect) -> list[Violation]:
        V: list[Violation] = []
        root = sess.root
        try:
            e1, e2 = (root == S), (S == root)
        except Exception as e:
            return [Violation('C20', 'eq_raises', step, f'== raised {type(e).__name__}: {e}')]
        if e1 != e2:
            V.append(Violation('C20', 'symmetry', step, f'root == snapshot is {e1} but snapshot == root is {e2}'))
            return V
        if step % 5 == 0:
            text = print_model(root)
            try:
                p1, p2 = parser().parse(text, models.File), parser().parse(text, models.File)
            except Exception:
                p1 = p2 = None
            if p1 is not None and (not (p1 == p2) or not (p2 == p1)):
                return [Violation('C20', 'parse_twice_unequal', step, 'parsing the same text twice gives unequal models')]
            toks = [t for t in root.token_store if t.raw_text][:200]
            seen: dict = {}
            for t in toks:
                k = (type(t).RULE, t.raw_text)
                o = seen.setdefault(k, t)
                if o is not t and (o == t) and hash(o) != hash(t):
                    return [Violation('C20', 'hash_consistency', step, f'equal tokens {o!r} and {t!r} hash differently')]
                if o is not t and not (o == t and t == o):
                    return [Violation('C20', 'token_equality', step, f'tokens with the same rule and text compare unequal: {o!r} {t!r}')]
        if step % 3 == 0:
            # two nodes of one document (one store): equal exactly when they print alike and are built alike
            pairs = 0
            for _, rep in W.iter_nodes(root):
                if not isinstance(rep, I.Repeated) or pairs >= 10:
                    continue
                items = [x for x in rep.items if isinstance(x, models.RawTreeModel)]
                for a, b in zip(items, items[1:]):
                    if type(a) is not type(b) or pairs >= 10:
                        continue
                    pairs += 1
                    try:
                        ab, ba = (a == b), (b == a)
                    except Exception as e:
                        return [Violation('C20', 'eq_raises', step, f'== between two {type(a).__name__} items raised {type(e).__name__}: {e}')]
                    alike = print_model(a) == print_model(b) and W.struct_fp(a) == W.struct_fp(b)
                    if [getattr(n, 'indent_by', None) for _, n in W.iter_nodes(a) if hasattr(n, 'indent_by')] != \
                            [getattr(n, 'indent_by', None) for _, n in W.iter_nodes(b) if hasattr(n, 'indent_by')]:
                        continue        # (an attribute that is part of the model but not of its text)
                    if alike and [(type(t).__name__, t.raw_text) for t in a.tokens] != [(type(t).__name__, t.raw_text) for t in b.tokens]:
                        # same text and tree, but a history of claims left the zero-width placeholders in another
                        # order: pairs reached that way are outside the statement (parsing, copying, single edits)
                        sess.stats['eq:sibling_pairs_placeholder_order'] += 1
                        continue
                    sess.stats['eq:sibling_pairs'] += 1
                    if alike:
                        sess.stats['eq:sibling_pairs_alike'] += 1
                    if ab != ba:
                        return [Violation('C20', 'symmetry', step, f'two sibling {type(a).__name__} items: a == b is {ab}, b == a is {ba}')]
                    if ab and not alike:
                        return [Violation('C20', 'unequal_expected', step,
                                          f'sibling {type(a).__name__} items {print_model(a)!r} and {print_model(b)!r} compare equal')]
                    if alike and not ab:
                        return [Violation('C20', 'equal_expected', step,
                                          f'sibling {type(a).__name__} items with the same text {print_model(a)!r} and structure compare unequal')]
        same_text = print_model(root) == print_model(S)
        same_struct = W.struct_fp(root) == W.struct_fp(S)
        if same_text and same_struct:
            ib1 = [getattr(n, 'indent_by', None) for _, n in W.iter_nodes(root) if hasattr(n, 'indent_by')]
            ib2 = [getattr(n, 'indent_by', None) for _, n in W.iter_nodes(S) if hasattr(n, 'indent_by')]
            if ib1 != ib2:
                return V
            if not e1:
                V.append(Violation('C20', 'equal_expected', step, f'after {eff.kind} the document has the same text and structure as before but compares unequal'))
        elif e1:
            V.append(Violation('C20', 'unequal_expected', step, f'after {eff.kind} text_equal={same_text} structure_equal={same_struct} but the models compare equal'))
        return V

    # -- the run ------------------------------------------------------------------
    @core.stuck_guard
    def _execute(self, trace: dict, prop: str, rng: Optional[random.Random]) -> core.RunResult:
        knobs = trace['knobs']
        storesim.set_load_factor(knobs['load_factor'])
        storesim._counters.clear()
        stats: collections.Counter = collections.Counter()
        log: list = [{'knobs': knobs, 'text': core.sha(trace['text'])}]
        res = core.RunResult(trace=trace, violations=[], stats=stats, log=log)
        profile = dict(PROFILES.get(knobs.get('profile', prop), PROFILES['C05']))
        profile.update({k: v for k, v in knobs.items() if k in ('syntax_safe', 'reparse', 'pool_edits')})
        try:
            sess = Session(knobs, trace['text'])
        except Exception as e:
            res.skipped = 'docgen_rejected'
            return res
        sess.stats = stats
        if print_model(sess.root) != trace['text']:
            res.skipped = 'precondition_c01_failed'
            return res
        V = W.check_tree(sess.root, -1, standalone=True) + W.check_ownership(sess.root, -1) + self.check_stores(sess, -1, set())
        if not V:
            V = self.check_initial(sess)
            # a listed finding about the start state does not corrupt anything: note it and go on
            kept = []
            for v in V:
                fid = findings.match(v, sess, None)
                if fid:
                    res.known_hits.append(fid)
                else:
                    kept.append(v)
            V = kept
        if V:
            res.violations = V
            return res
        if profile.get('reparse'):
            V = self.check_reparse(sess, -1, None)
            if V:
                # the start state itself does not satisfy the re-parse clause (e.g. docgen wrote an
                # ambiguous custom): precondition of C06/C09, not a violation
                res.skipped = 'precondition_reparse_of_initial_text'
                return res
        ops = trace['ops']
        n_ops = knobs['n_ops']
        sig: list[str] = []
        step = 0
        foreign_budget = 12
        relevant = profile.get('relevant', '')
        weights = profile['w']
        classes = [c for c in weights if weights[c] > 0 and c not in knobs.get('disabled', [])]
        while True:
            if rng is not None:
                if step >= n_ops:
                    break
                op = None
                script = getattr(sess, 'script', None)
                if script:
                    op = script.pop(0)       # continuation of a scripted multi-call sequence
                for _ in range(6 if op is None else 0):
                    cls = rng.choices(classes, [weights[c] for c in classes])[0]
                    g = docops.Gen(sess, rng, profile)
                    try:
                        op = docfaults.gen_F(g) if cls == 'F' else g.gen(cls)
                    except Unresolvable:
                        op = None
                    except core.HarnessError:
                        raise
                    except docexec.ARITH_ERRORS:
                        op = None
                    except Exception as e:
                        if res.foreign:
                            op = None      # the state is already known to be corrupt (another property's clause fired)
                            break
                        import traceback
                        tb = traceback.extract_tb(e.__traceback__)
                        if not tb or not os.path.realpath(tb[-1].filename).startswith(os.path.realpath(core.REPO_DIR)):
                            raise
                        # the public read API of a model reachable from the root raised inside the library: the
                        # document state is unreadable although no invariant has fired; reported for the running check
                        res.violations = [Violation(prop, 'state_unreadable', step,
                                                    f'enumerating the document for the next operation raised {type(e).__name__}: {e} '
                                                    f'({tb[-1].name} in {os.path.basename(tb[-1].filename)})')]
                        res.history_sig = core.sha(' '.join(sig))
                        return res
                    if op is not None:
                        break
                if op is None:
                    break
                ops.append(op)
            else:
                if step >= len(ops):
                    break
                op = ops[step]
            sub_ops = op['list'] if op['op'] == 'faults' else [op]
            stop = False
            for sub in sub_ops:
                try:
                    V, eff = self.one(sess, sub, step, profile, prop)
                except core.HarnessError:
                    raise
                except Exception:
                    if not res.foreign:
                        raise
                    stop = True        # corrupt state after a foreign violation: nothing more to learn
                    break
                if eff is None:
                    log.append({'n': step, 'op': sub['op'], 'outcome': 'skipped'})
                    stats['op_skipped_unresolvable'] += 1
                    continue
                stats[f'op:{eff.kind}'] += 1
                stats[f'class:{eff.cls}'] += 1
                if eff.fault:
                    stats[f'fault:{eff.fault}'] += 1
                if eff.known:
                    res.known_hits.append(eff.known)
                sig.append(f'{eff.kind}@{eff.target}')
                if len(sig) > 1:
                    res.pairs.add(sig[-2].split('@')[0] + '>' + eff.kind)
                if eff.cls in relevant or (op['op'] == 'faults' and 'F' in relevant):
                    res.relevant_ops += 1
                try:
                    text_sha = core.sha(print_model(sess.root))
                except Exception:
                    text_sha = 'unprintable'     # the tree invariant reports this state
                log.append({'n': step, 'op': eff.kind, 'target': eff.target, 'outcome': eff.outcome, 'text': text_sha})
                if V and not any(v.prop == prop for v in V) and foreign_budget > 0 and eff.outcome != 'broken':
                    foreign_budget += 0
                    # Only other properties' clauses fired.  Their checks report them; this check goes on for a
                    # few steps, because on a changed tree its own clause may be a later consequence.  On the
                    # unchanged tree nothing fires at all, so nothing is reported that the property's own oracle
                    # did not observe.
                    foreign_budget -= 1     # at most 12 further steps after the first foreign clause
                    for v in V:
                        if (v.prop, v.clause) not in {(x.prop, x.clause) for x in res.foreign}:
                            stats[f'foreign_seen:{v.prop}/{v.clause}'] += 1
                            res.foreign.append(v)
                    V = []
                if V:
                    res.violations = V + [v for v in res.foreign if False]
                    stop = True
                    if os.environ.get('VERIF_DEBUG'):
                        print('--- document at violation ---')
                        print(print_model(sess.root))
                        print('--- end ---')
                    break
                if eff.known:
                    stop = True
                    break
            if stop:
                break
            res.states.add(core.sha(repr(W.struct_fp(sess.root))[:4000] + storesim.blocks_signature(sess.root.token_store)) if step % 4 == 0 else '')
            step += 1
        res.states.discard('')
        stats.update(storesim._counters)
        stats[f'load_factor:{knobs["load_factor"]}'] += 1
        stats[f'auto_claim:{knobs.get("auto_claim", True)}'] += 1
        if len(sess.root.token_store._blocks) > 1:
            stats['doc_store_multi_block_at_end'] += 1
        res.history_sig = core.sha(' '.join(sig))
        return res

    def one(self, sess: Session, op: dict, step: int, profile: dict, prop: str):
        snap = sess.snapshot()
        fps = {key: W.fingerprint(node) for key, (node, _, _) in snap.items()}
        S = copy.deepcopy(sess.root) if profile.get('eq') else None
        fn = docexec.EXEC.get(op['op']) or docfaults.EXEC.get(op['op'])
        if fn is None:
            raise core.HarnessError(f'unknown op {op["op"]}')
        try:
            eff = fn(sess, op, step)
        except Unresolvable:
            return [], None
        except core.HarnessError:
            raise
        except docexec.ARITH_ERRORS:
            return [], None      # an expression that does not evaluate (division by zero): nothing to judge
        except Exception as e:
            # An exception raised by library code while the executor re-reads the state after the call
            # (views, tokens, values) is a verdict, not a harness failure; one raised by harness code is not.
            import traceback
            tb = traceback.extract_tb(e.__traceback__)
            if not tb or not os.path.realpath(tb[-1].filename).startswith(os.path.realpath(core.REPO_DIR)):
                raise
            prop_of = {'seq': 'C10', 'map': 'C10', 'set_raw': 'C03', 'set_wrapper': 'C03', 'set_val': 'C09', 'tok_value': 'C02',
                       'tok_raw': 'C02', 'comment_indent': 'C02', 'read': 'C04', 'claim': 'C14', 'spacing': 'C17', 'deepcopy': 'C11',
                       'arith': 'C13', 'eq_zombie': 'C20'}.get(op['op'], 'C05')
            eff = docops.Effect(op['op'] + ':state_unreadable', '?', '')
            eff.outcome = 'broken'
            eff.v(prop_of, 'state_unreadable_after_op', step,
                  f'after {op["op"]} the library raised {type(e).__name__}: {e} while the result was read back ({tb[-1].name} in {os.path.basename(tb[-1].filename)})')
        V = list(eff.viol)
        what = f'{eff.kind} on {eff.target}'

        # Clauses that fire at the same step are independent (first-violation rule, DESIGN §3.6): every
        # invariant group is evaluated even when another one already fired.  An invariant evaluator that
        # itself trips over a state another clause has already shown to be corrupt is ignored.
        def group(fn) -> None:
            try:
                V.extend(fn())
            except core.HarnessError:
                raise
            except Exception:
                if not V:
                    raise

        def refusal() -> list:
            out = self.noop_check(sess, snap, step, f'refused {what} ({type(eff.exc).__name__}: {str(eff.exc)[:80]})', 'C19', 'refusal_not_noop', True)
            if not out:
                for key, (node, _, _) in snap.items():
                    cur = sess.root if key == 'doc' else (sess.pool[key] if key < len(sess.pool) else None)
                    if cur is not None and W.fingerprint(cur) != fps[key]:
                        out.append(Violation('C19', 'refusal_changed_tree', step, f'refused {what}: tree of {"document" if key == "doc" else f"pool[{key}]"} changed'))
                        break
            return out

        op_failed = bool(eff.viol) and not eff.fault     # an exception that is not a catalogued refusal
        if eff.outcome == 'raised' and not op_failed:
            group(refusal)       # a refusal: the call must have been a no-op (C19)
        elif eff.outcome != 'raised' and op.get('must_raise'):
            V.append(Violation('C19', 'attached_node_accepted', step, f'{what}: a node that already lives elsewhere was accepted ({op.get("must_raise")})'))
        if eff.noop_expected and eff.outcome == 'ok':
            group(lambda: self.noop_check(sess, snap, step, what, 'C04', 'non_edit_changed_document', eff.cls not in ('C',)))
        if eff.outcome != 'raised':
            group(lambda: self.iso_check(sess, snap, step, eff.touched, what))
        # prune dead bookkeeping
        sess.recent = [r for r in sess.recent[-6:] if live(r)]
        if eff.wrapper_replaced is not None:
            # handles onto the replaced wrapper (or views built on it) no longer denote the field: not judged
            o, raw_name = eff.wrapper_replaced
            for k, h in enumerate(sess.handles):
                if h is not None and h['owner'] is o:
                    mm = I.members_of(o)[h['member']]
                    base = h['member'] if mm.kind in ('raw_repeated', 'raw_repeated_comments') else docops.view_filter(h['member'])[0]
                    if base == raw_name:
                        sess.handles[k] = None
                        sess.stats['handle_dropped_wrapper_replaced'] += 1
        group(lambda: self.check_stores(sess, step, eff.touched))

        def trees() -> list:
            for key, node in sess.roots():
                # a node is complete and self-contained when it enters the pool (pop, copy, construction);
                # later spacing edits at its edges may legitimately grow its store
                out = W.check_tree(node, step, standalone=(key == 'doc' or key not in snap), label='doc' if key == 'doc' else f'pool[{key}]')
                if out:
                    return out
            return []

        def owners() -> list:
            for key, node in sess.roots():
                out = W.check_ownership(node, step, label='doc' if key == 'doc' else f'pool[{key}]')
                if out:
                    return out
            return []
        group(trees)
        group(owners)
        group(lambda: self.check_views(sess, step))
        if profile.get('reparse') and eff.outcome == 'ok' and not eff.noop_expected:
            group(lambda: self.check_reparse(sess, step, eff))
        if profile.get('adjacency'):
            group(lambda: self.check_adjacent_spacing(sess, step))
        if eff.outcome == 'ok' and eff.cls in ('N', 'V', 'C', 'R', 'D') and not eff.kind.startswith('set_val:value_required'):
            group(lambda: self.check_indents(sess, snap, step, what))
        if S is not None and eff.outcome == 'ok':
            group(lambda: self.eq_check(sess, S, step, eff))
        if V:
            fids = [findings.match(v, sess, op) for v in V]
            if all(fids):
                eff.known = fids[0]
                V = []
        return V, eff

    # -- Engine interface ---------------------------------------------------------
    def generate(self, rng: random.Random, prop: str, tier: str, run: int) -> core.RunResult:
        profile = PROFILES.get(prop, PROFILES['C05'])
        lf = rng.choice(LOAD_FACTORS)
        big = profile.get('big_docs') and rng.random() < (0.25 if tier == 'thorough' else 0.08)
        lay = docgen.Layout(rng)
        if profile.get('comment_dense'):
            lay.comment_density = rng.choice([0.3, 0.6, 0.8])
        kinds = None
        if profile.get('cost_docs') and rng.random() < 0.6:
            kinds = ['transaction']
        if big:
            n = rng.choice([150, 250, 400])
            lf = rng.choice([16, 64, 1000, 1000])
        else:
            n = rng.choice([0, 1, 1, 2, 3, 4, 6, 8, 12, 20, 30]) if not profile.get('syntax_safe') else rng.choice([1, 2, 3, 4, 6, 10])
        text = docgen.gen_file(rng, n, lay, kinds)
        n_ops = rng.choice([3, 5, 8, 12, 20, 30, 40]) if not big else rng.choice([3, 6, 10])
        if tier == 'thorough' and rng.random() < 0.05:
            n_ops = 120
        weights = profile['w']
        disabled = [c for c in weights if weights[c] > 0 and c not in profile.get('relevant', '') and rng.random() < 0.25]
        knobs = {
            'load_factor': lf,
            'auto_claim': rng.random() < 0.7,
            'n_ops': n_ops,
            'profile': prop if prop in PROFILES else 'C05',
            'disabled': disabled,
        }
        trace = {'knobs': knobs, 'text': text, 'ops': []}
        return self._execute(trace, prop, rng)

    def replay(self, trace: dict, prop: str) -> core.RunResult:
        # (the same foreign-violation budget applies, so a replay takes the same path as the original run)
        t = {'knobs': dict(trace['knobs']), 'text': trace['text'], 'ops': copy.deepcopy(trace['ops'])}
        return self._execute(t, prop, None)

    def shrink_candidates(self, trace: dict):
        knobs = trace['knobs']
        # 1. drop single faults from fault lists
        for i, op in enumerate(trace['ops']):
            if op['op'] == 'faults' and len(op['list']) > 1:
                for j in range(len(op['list'])):
                    ops = list(trace['ops'])
                    ops[i] = dict(op, list=op['list'][:j] + op['list'][j + 1:])
                    yield dict(trace, ops=ops)
        # 2. simplify knobs
        if knobs['load_factor'] != 1000:
            yield dict(trace, knobs=dict(knobs, load_factor=1000))
        if not knobs.get('auto_claim', True):
            yield dict(trace, knobs=dict(knobs, auto_claim=True))
        # 3. drop trailing directives (paths address directives by index, so only the tail is safe) and lines
        text = trace['text']
        lines = text.split('\n')
        if len(lines) > 2:
            for cut in (len(lines) // 2, len(lines) - 2, len(lines) - 1):
                if 0 < cut < len(lines):
                    yield dict(trace, text='\n'.join(lines[:cut]))

    def describe(self) -> dict:
        return {
            'real_code': ['parser.Parser (lark grammar, PostLex, ModelBuilder)', 'token_store.TokenStore', 'all model classes, wrappers and views',
                          'printer.print_model'],
            'stubs': [],
            'seams': ['token_store load factor globals per run', 'Parser.parse(auto_claim_comments=bool)'],
        }
