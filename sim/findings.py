"""Known findings: genuine defects that are recorded rather than repaired.

Each open entry of /verif/known_findings.json names a predicate defined here.
A violation is attributed to a finding only if its (property, clause) is listed
for the finding AND the predicate holds on the state/operation that failed; any
other violation of the same property is still reported.  Nothing is ever added
to the file at run time.
"""
from __future__ import annotations

from typing import Any, Callable, Optional

from . import core
from . import introspect as I
from . import walker as W

models = I.models


def number_comma_digit_hazard(v: core.Violation, sess: Any, op: Optional[dict]) -> bool:
    """A number token directly followed by ',' and a token starting with a digit:
    the text lexes as a thousands separator."""
    if sess is None:
        return False
    toks = [t for t in sess.root.token_store if t.raw_text]
    for a, b, c in zip(toks, toks[1:], toks[2:]):
        if isinstance(a, models.Number) and isinstance(b, models.Comma) and c.raw_text[:1].isdigit() \
                and '.' not in a.raw_text:
            return True
    return False


def slash_number_currency_hazard(v: core.Violation, sess: Any, op: Optional[dict]) -> bool:
    """'/' NUMBER CURRENCY written without any blank: lexes as a slash-currency ('/0.5USD')."""
    if sess is None:
        return False
    import re
    body = re.compile(r"[A-Z0-9'._-]+")
    toks = [t for t in sess.root.token_store if t.raw_text]
    for i, a in enumerate(toks):
        if type(a).__name__ == 'MulOp' and a.raw_text == '/':
            # everything written without a blank from the '/' up to a currency, all of it currency characters
            text = ''
            for t in toks[i + 1:i + 12]:
                if isinstance(t, (models.Whitespace, models.Newline)):
                    break
                text += t.raw_text
                if not body.fullmatch(text):
                    break
                if isinstance(t, models.Currency):
                    return True
    return False


def unindented_comment_in_block(v: core.Violation, sess: Any, op: Optional[dict]) -> bool:
    """An unindented comment is an entry of an indented meta / postings list and a real item follows it."""
    if sess is None:
        return False
    for _, node in W.iter_nodes(sess.root):
        if isinstance(node, I.Repeated) and not isinstance(sess.root._directives, type(None)) and node is not sess.root._directives:
            items = node.items
            for i, it in enumerate(items):
                if isinstance(it, models.BlockComment) and it.indent == '' and any(not isinstance(x, models.BlockComment) for x in items[i + 1:]):
                    return True
    return False


def letter_flag_glued_to_account(v: core.Violation, sess: Any, op: Optional[dict]) -> bool:
    """A posting flag that is a letter, directly followed by the account: lexes as one account name."""
    if sess is None:
        return False
    toks = [t for t in sess.root.token_store if t.raw_text]
    for a, b in zip(toks, toks[1:]):
        if isinstance(a, models.PostingFlag) and a.raw_text.isalpha() and isinstance(b, models.Account):
            return True
    return False


def blank_line_after_list_replacement(v: core.Violation, sess: Any, op: Optional[dict]) -> bool:
    """Inside an entry's block: newline, the zero-width placeholder of a list, newline, indented line - the
    list's first item(s) were replaced while its placeholder sat behind the separating newline."""
    if sess is None:
        return False
    toks = list(sess.root.token_store)
    n = len(toks)
    for i, a in enumerate(toks):
        if not isinstance(a, models.Newline):
            continue
        j = i + 1
        seen_placeholder = False
        while j < n and not toks[j].raw_text:
            seen_placeholder = seen_placeholder or isinstance(toks[j], I.internal.Placeholder)
            j += 1
        if not seen_placeholder or j >= n or not isinstance(toks[j], models.Newline):
            continue
        k = j + 1
        while k < n and not toks[k].raw_text:
            k += 1
        if k < n and (isinstance(toks[k], models.Indent) or (isinstance(toks[k], models.BlockComment) and toks[k].indent)):
            return True
    return False


PREDICATES: dict[str, Callable[[core.Violation, Any, Optional[dict]], bool]] = {
    'number_comma_digit_hazard': number_comma_digit_hazard,
    'slash_number_currency_hazard': slash_number_currency_hazard,
    'unindented_comment_in_block': unindented_comment_in_block,
    'letter_flag_glued_to_account': letter_flag_glued_to_account,
    'blank_line_after_list_replacement': blank_line_after_list_replacement,
}

_OPEN: Optional[list[dict]] = None


def open_findings() -> list[dict]:
    global _OPEN
    if _OPEN is None:
        _OPEN = core.open_findings()
        for f in _OPEN:
            if f['predicate'] not in PREDICATES:
                raise core.HarnessError(f'known finding {f["id"]} names unknown predicate {f["predicate"]}')
    return _OPEN


def match(v: core.Violation, sess: Any, op: Optional[dict]) -> Optional[str]:
    for f in open_findings():
        if [v.prop, v.clause] in f['clauses'] or (v.prop, v.clause) in [tuple(c) for c in f['clauses']]:
            if PREDICATES[f['predicate']](v, sess, op):
                return f['id']
    return None
