"""edsim (C16, and the editor clause of C08): Editor.edit_file /
edit_file_recursive over a real directory tree on tmpfs, with every Python-level
I/O call interposed (recorded, glob results permuted), the body of the
with-block scripted (edits, pops, additions, a raise at an enumerated point) and
a reference model R_fs: include-closure resolver + shadow session on the raw
bytes.
"""
from __future__ import annotations

import base64
import builtins
import collections
import copy
import fnmatch
import glob as glob_mod
import io
import os
import pathlib
import random
import re
import shutil
import tempfile
from typing import Any, Optional

from . import core
from . import docgen
from .docbase import parser, print_model

core.use_repo()
from autobean_refactor import editor as editor_lib, models  # noqa: E402

Violation = core.Violation

_REAL = {
    'open': builtins.open, 'io_open': io.open, 'unlink': os.unlink, 'remove': os.remove, 'makedirs': os.makedirs,
    'mkdir': os.mkdir, 'rename': os.rename, 'replace': os.replace, 'glob': glob_mod.glob, 'rmdir': os.rmdir,
}


class Interposer:
    """Records Python-level I/O while active; permutes glob results."""

    def __init__(self, glob_seed: int):
        self.log: list[tuple] = []
        self.rng = random.Random(glob_seed)
        self.active = False

    def _abs(self, p: Any) -> str:
        return os.path.normpath(os.path.abspath(os.fspath(p)))

    def __enter__(self):
        me = self

        def open_(file, mode='r', *a, **kw):
            if me.active and not isinstance(file, int):
                me.log.append(('open', me._abs(file), mode, kw.get('newline', a[3] if len(a) > 3 else None)))
            return _REAL['open'](file, mode, *a, **kw)

        def mk(name):
            def f(path, *a, **kw):
                if me.active:
                    me.log.append((name, me._abs(path)))
                return _REAL[name](path, *a, **kw)
            return f

        def mk2(name):
            def f(src, dst, *a, **kw):
                if me.active:
                    me.log.append((name, me._abs(src), me._abs(dst)))
                return _REAL[name](src, dst, *a, **kw)
            return f

        def glob_(pattern, *a, **kw):
            res = _REAL['glob'](pattern, *a, **kw)
            if me.active:
                res = sorted(res)
                me.rng.shuffle(res)
                me.log.append(('glob', pattern, len(res)))
            return res

        builtins.open = open_
        io.open = open_
        os.unlink = mk('unlink')
        os.remove = mk('remove')
        os.makedirs = mk('makedirs')
        os.mkdir = mk('mkdir')
        os.rmdir = mk('rmdir')
        os.rename = mk2('rename')
        os.replace = mk2('replace')
        glob_mod.glob = glob_
        self.active = True
        return self

    def __exit__(self, *exc):
        self.active = False
        builtins.open = _REAL['open']
        io.open = _REAL['io_open']
        os.unlink = _REAL['unlink']
        os.remove = _REAL['remove']
        os.makedirs = _REAL['makedirs']
        os.mkdir = _REAL['mkdir']
        os.rmdir = _REAL['rmdir']
        os.rename = _REAL['rename']
        os.replace = _REAL['replace']
        glob_mod.glob = _REAL['glob']
        return False


class BodyRaise(Exception):
    """The scripted exception thrown by the body of the with-block."""


class Mismatch(Exception):
    def __init__(self, v: Violation):
        self.v = v


# --------------------------------------------------------------------------
# reference include resolver (R_fs)

_MAGIC = re.compile('[*?[]')


def ref_glob(base_dir: str, pattern: str, files: set[str], dirs: set[str]) -> list[str]:
    """Files of the world matched by os.path.join(base_dir, pattern) under glob
    semantics (recursive=True, hidden names need an explicit dot)."""
    full = pattern if os.path.isabs(pattern) else os.path.join(base_dir, pattern)
    if not _MAGIC.search(full):
        n = os.path.normpath(full)
        # every directory named on the way must exist (d/../x needs d)
        parts = full.split('/')
        cur = '/' if full.startswith('/') else ''
        for part in parts[:-1]:
            cur = os.path.normpath(os.path.join(cur, part)) if cur else part
            c = os.path.normpath(cur)
            if c not in dirs and c != '/' and not any(d.startswith(c + '/') for d in dirs):
                return []
        return [n] if n in files else []
    comps = full.split('/')
    out = []
    for f in sorted(files | dirs):
        fparts = f.split('/')
        if _match(comps, fparts) and f in files:
            out.append(f)
    return out


def _match(comps: list[str], parts: list[str]) -> bool:
    if not comps:
        return not parts
    c = comps[0]
    if c == '**':
        if len(comps) == 1:
            return all(not p.startswith('.') for p in parts)
        for k in range(len(parts) + 1):
            if all(not p.startswith('.') for p in parts[:k]) and _match(comps[1:], parts[k:]):
                return True
        return False
    if not parts:
        return False
    p = parts[0]
    if _MAGIC.search(c):
        if p.startswith('.') and not c.startswith('.'):
            return False
        if not fnmatch.fnmatchcase(p, c):
            return False
    elif c != p:
        return False
    return _match(comps[1:], parts[1:])


def include_patterns(text: str) -> list[tuple[str, int]]:
    """(pattern, 0-based line of the include keyword) from the parsed file."""
    f = parser().parse(text, models.File)
    out = []
    pos = 0
    offs = {}
    for t in f.token_store:
        offs[id(t)] = pos
        pos += len(t.raw_text)
    for d in f.raw_directives:
        if isinstance(d, models.Include):
            kw = d._label
            out.append((d.filename, text.count('\n', 0, offs[id(kw)]), text.count('\n', 0, offs[id(d.first_token)])))
    return out


# --------------------------------------------------------------------------
# scripted body

def apply_body_op(file: Any, op: dict) -> None:
    how = op['how']
    ds = file.raw_directives
    if how == 'append':
        file.raw_directives.append(parser().parse(op['text'], models.Close))
    elif how == 'date':
        for d in ds:
            if hasattr(d, 'date'):
                d.date = d.date.replace(day=(d.date.day % 28) + 1)
                break
    elif how == 'del':
        if len(ds):
            ds.pop(len(ds) - 1)
    elif how == 'comment':
        for d in ds:
            if hasattr(d, 'inline_comment'):
                d.inline_comment = op.get('text', 'edited')
                break
    elif how == 'meta':
        for d in ds:
            if hasattr(d, 'meta'):
                d.meta['edited'] = 'yes'
                break
    elif how == 'noop_roundtrip':
        for d in ds:
            if hasattr(d, 'date'):
                d.date = d.date
                break


class EdSim(core.Engine):
    name = 'edsim'
    _counter = 0

    # -- world -------------------------------------------------------------------
    def _gen_world(self, rng: random.Random) -> dict[str, str]:
        names = ['main.bean']
        pool = ['a.bean', 'b.bean', 'cc.bean', 'sub/a.bean', 'sub/d.bean', 'sub/deep/e.bean', 'other/f.bean', 'sub/gg.bean',
                'other/deep/hh.bean', '.hidden.bean', 'sub/.dot.bean']
        rng.shuffle(pool)
        names += pool[:rng.choice([0, 1, 2, 3, 4, 6, 9])]
        world: dict[str, str] = {}
        eol_mode = rng.choice(['lf', 'lf', 'crlf', 'mixed'])
        for name in names:
            lay = docgen.Layout(rng, eol=rng.choice(['lf', 'crlf']) if eol_mode == 'mixed' else eol_mode)
            lay.comment_density = rng.choice([0.0, 0.3])
            body = docgen.gen_file(rng, rng.choice([0, 1, 2, 3]), lay, kinds=['open', 'close', 'transaction', 'note', 'balance', 'option', 'event'])
            incs = []
            here = os.path.dirname(name)
            for _ in range(rng.choice([0, 0, 1, 1, 2, 3]) if name != 'main.bean' else rng.choice([1, 2, 3])):
                incs.append(self._gen_include(rng, here, names))
            nl = '\r\n' if lay.eol_mode == 'crlf' else '\n'
            lines = [f'include "{p}"' + rng.choice(['', ' ; inc', '  ']) for p in incs]
            if rng.random() < 0.5:
                text = nl.join(lines) + (nl if lines else '') + body
            else:
                text = body + ('' if body.endswith('\n') or not body else nl) + nl.join(lines) + (nl if lines and rng.random() < 0.7 else '')
            world[name] = text
        if rng.random() < 0.3:
            world['notes.txt'] = 'not a ledger\n'
        return world

    def _gen_include(self, rng: random.Random, here: str, names: list[str]) -> str:
        target = rng.choice(names)
        rel = os.path.relpath(target, here or '.')
        r = rng.random()
        if r < 0.35:
            return rel
        if r < 0.45:
            return './' + rel
        if r < 0.55:
            return '{ROOT}/' + target
        if r < 0.62 and here:
            return '../' + os.path.relpath(target, os.path.dirname(here) or '.') if os.path.dirname(here) == '' else rel
        if r < 0.70:
            d = os.path.dirname(rel)
            sub = next((n for n in names if os.path.dirname(n) and os.path.dirname(n).split('/')[0] == 'sub'), None)
            return ('sub/../' + rel) if (not here and sub) else rel
        pats = ['*.bean', '??.bean', 'sub/*.bean', '**/*.bean', 'sub/**/*.bean', '[ab].bean', '*/*.bean', '{ROOT}/sub/*.bean', '*.bea?']
        files = {'/r/' + n for n in names}
        dirs = {'/r'} | {os.path.dirname(f) for f in files} | {os.path.dirname(os.path.dirname(f)) for f in files}
        ok = [p for p in pats if ref_glob(os.path.normpath(os.path.join('/r', here)), p.replace('{ROOT}', '/r'), files, dirs)]
        return rng.choice(ok) if ok and rng.random() < 0.93 else rng.choice(pats)

    # -- run ---------------------------------------------------------------------
    def _sandbox(self) -> str:
        base = '/dev/shm' if os.path.isdir('/dev/shm') and os.access('/dev/shm', os.W_OK) else tempfile.gettempdir()
        EdSim._counter += 1
        return os.path.join(base, 'verif-edsim', f'{os.getpid()}-{EdSim._counter}')

    def _scan(self, root: str) -> tuple[dict[str, bytes], set[str]]:
        files, dirs = {}, set()
        for dp, dn, fn in os.walk(root):
            dirs.add(os.path.normpath(dp))
            for f in fn:
                p = os.path.join(dp, f)
                with _REAL['open'](p, 'rb') as fh:
                    files[os.path.normpath(p)] = fh.read()
        return files, dirs

    @core.stuck_guard
    def _execute(self, trace: dict, prop: str) -> core.RunResult:
        stats: collections.Counter = collections.Counter()
        log: list = [{'knobs': trace['knobs'], 'entry': trace['entry'], 'world': {k: core.sha(v) for k, v in sorted(trace['world'].items())}}]
        res = core.RunResult(trace=trace, violations=[], stats=stats, log=log)
        sandbox = self._sandbox()
        root = os.path.join(sandbox, 'root')
        cwd0 = os.getcwd()
        try:
            os.makedirs(root)
            for rel, text in trace['world'].items():
                p = os.path.join(root, rel)
                _REAL['makedirs'](os.path.dirname(p), exist_ok=True)
                with _REAL['open'](p, 'wb') as fh:
                    fh.write(text.replace('{ROOT}', root).encode('utf-8'))
            ed = editor_lib.Editor(parser())
            V = self._run_world(trace, root, stats, log, res, ed, trace['ops'])
            if not V and not res.skipped and trace.get('followup') is not None:
                # a second session through the SAME Editor object on whatever the first one left behind
                stats['followup_sessions'] += 1
                os.chdir(root)
                V = self._run_world(trace, root, stats, log, res, ed, trace['followup'])
                V = [Violation(v.prop, v.clause, 1, 'second session with the same Editor: ' + v.msg) for v in V]
            res.violations = V
        finally:
            os.chdir(cwd0)
            shutil.rmtree(sandbox, ignore_errors=True)
        return res

    def _closure(self, root: str, entry_abs: str, before: dict[str, bytes], dirs: set[str]) -> tuple[Optional[list[str]], Optional[tuple]]:
        """BFS include closure; (ordered abs paths, None) or (None, (file, pattern, line, first_token_line)) when an include matches nothing.
        Returns (None, None) when some file of the closure does not parse (precondition)."""
        files = set(before)
        seen: list[str] = []
        queue = collections.deque([entry_abs])
        while queue:
            cur = queue.popleft()
            if cur in seen:
                continue
            if cur not in files:
                return None, None
            seen.append(cur)
            text = before[cur].decode('utf-8')
            try:
                pats = include_patterns(text)
            except Exception:
                return None, None
            for pat, kw_line, ft_line in pats:
                ms = ref_glob(os.path.dirname(cur), pat, files, dirs)
                if not ms:
                    return None, (cur, pat, kw_line, ft_line)
                queue.extend(sorted(ms))
        return seen, None

    def _run_world(self, trace: dict, root: str, stats, log, res: core.RunResult, ed: Any, ops: list) -> list[Violation]:
        entry = trace['entry']
        before, dirs_before = self._scan(root)
        entry_abs = os.path.join(root, entry['file'])
        recursive = entry['api'] == 'recursive'
        closure, missing = self._closure(root, entry_abs, before, dirs_before) if recursive else ([entry_abs], None)
        if closure is None and missing is None:
            res.skipped = 'precondition_world_unparseable'
            return []
        if missing is not None:
            # the editor may meet the files in another order than the reference walk: if any file of the world
            # does not parse, its parse error may legitimately come before the report of the missing include
            for pth, raw in before.items():
                try:
                    include_patterns(raw.decode('utf-8'))
                except Exception:
                    res.skipped = 'precondition_world_unparseable'
                    return []
        if not recursive:
            try:
                parser().parse(before[entry_abs].decode('utf-8'), models.File)
            except Exception:
                res.skipped = 'precondition_world_unparseable'
                return []
        # spelling and cwd
        sp = entry['spelling']
        cwd = root
        if sp == 'abs':
            path = entry_abs
        elif sp == 'bare':
            path = entry['file']
        elif sp == 'dot':
            path = './' + entry['file']
        elif sp == 'updown':
            first_dir = next((os.path.relpath(d, root) for d in sorted(dirs_before) if d != root and os.path.dirname(d) == root), None)
            path = f'{first_dir}/../{entry["file"]}' if first_dir else './' + entry['file']
        elif sp == 'from_parent':
            cwd = os.path.dirname(root)
            path = 'root/' + entry['file']
        elif sp == 'from_subdir':
            # the working directory is a sub-directory of the ledger: every relative spelling climbs with '..'
            first_dir = next((d for d in sorted(dirs_before) if d != root and os.path.dirname(d) == root), None)
            if first_dir is None:
                path = './' + entry['file']
            else:
                cwd = first_dir
                path = os.path.relpath(entry_abs, first_dir)
        else:
            raise core.HarnessError(sp)
        os.chdir(cwd)
        path_arg: Any = pathlib.Path(path) if entry.get('as_path') else path
        stats[f'spelling:{sp}'] += 1
        stats[f'api:{entry["api"]}'] += 1
        if any(b'\r\n' in b for p, b in before.items() if closure and p in closure):
            stats['closure_has_crlf'] += 1
        raise_at = next((i for i, o in enumerate(ops) if o['op'] == 'raise'), None)
        body_state: dict = {'keys': None, 'ran': 0, 'added': {}, 'popped': [], 'edited': set()}
        exc: Optional[BaseException] = None
        ipo = Interposer(trace['glob_seed'])

        def body_recursive(files: dict) -> None:
            keys = sorted(files.keys(), key=lambda p: os.path.normpath(os.path.abspath(p)))
            body_state['keys'] = list(keys)
            body_state['key_abs'] = [os.path.normpath(os.path.abspath(k)) for k in keys]
            for op_index, op in enumerate(ops):
                if op['op'] == 'raise':
                    body_state['raised'] = True
                    raise BodyRaise('scripted failure')
                if op['op'] in ('edit', 'read', 'pop'):
                    if not keys:
                        continue
                    k = keys[op['k'] % len(keys)]
                    if k not in files:
                        continue
                    if op['op'] == 'edit':
                        apply_body_op(files[k], op)
                    elif op['op'] == 'read':
                        print_model(files[k]), list(files[k].raw_directives)
                    else:
                        files.pop(k)
                elif op['op'] == 'rekey':
                    if not keys:
                        continue
                    k = keys[op['k'] % len(keys)]
                    if k not in files:
                        continue
                    a = os.path.normpath(os.path.abspath(k))
                    new_key = {'abs': a, 'dot': './' + os.path.relpath(a, os.getcwd()), 'rel': os.path.relpath(a, os.getcwd())}[op['spell']]
                    if new_key == k or new_key in files:
                        continue
                    files[new_key] = files.pop(k)     # the same file under another spelling of its path
                    body_state.setdefault('rekeyed_ops', set()).add(op_index)
                elif op['op'] == 'add':
                    newp = op['path'].replace('{ROOT}', root)
                    files[newp] = parser().parse(op['text'], models.File)
                body_state['ran'] += 1

        def body_single(file: Any) -> None:
            for op in ops:
                if op['op'] == 'raise':
                    body_state['raised'] = True
                    raise BodyRaise('scripted failure')
                if op['op'] == 'edit':
                    apply_body_op(file, op)
                elif op['op'] == 'read':
                    print_model(file)
                body_state['ran'] += 1

        with ipo:
            try:
                if recursive:
                    with ed.edit_file_recursive(path_arg) as files:
                        ipo.log.append(('yield',))
                        body_recursive(files)
                        ipo.log.append(('body_done',))
                else:
                    with ed.edit_file(path_arg) as file:
                        ipo.log.append(('yield',))
                        body_single(file)
                        ipo.log.append(('body_done',))
            except BaseException as e:     # noqa: the editor may raise anything; classified below
                exc = e
        os.chdir(root)
        after, dirs_after = self._scan(root)
        iolog = ipo.log
        # canonical, order-insensitive summary (unlink order follows set iteration in the editor)
        log.append({'io': sorted(collections.Counter(
            (e[0], os.path.relpath(e[1], root) if len(e) > 1 and isinstance(e[1], str) and e[1].startswith(root) else '', e[2] if e[0] == 'open' else '')
            for e in iolog if e[0] != 'glob').items()),
            'globs': sum(1 for e in iolog if e[0] == 'glob'), 'exc': type(exc).__name__ if exc else None})
        res.relevant_ops += 1 + len(ops)
        opens_r = [e[1] for e in iolog if e[0] == 'open' and not any(c in e[2] for c in 'wax+')]
        opens_w = [e[1] for e in iolog if e[0] == 'open' and any(c in e[2] for c in 'wax+')]
        unlinks = [e[1] for e in iolog if e[0] in ('unlink', 'remove')]
        yielded = ('yield',) in iolog

        def v(clause, msg, prop='C16'):
            return [Violation(prop, clause, 0, msg)]

        def rel(p):
            return os.path.relpath(p, root)

        def fs_unchanged() -> Optional[str]:
            if after != before:
                ch = sorted(set(p for p in set(after) | set(before) if after.get(p) != before.get(p)))
                return f'files differ: {[rel(p) for p in ch][:5]}'
            if dirs_after != dirs_before:
                return f'directories differ: {[rel(p) for p in sorted(dirs_after ^ dirs_before)][:5]}'
            return None
        # ---- include that matches nothing: error message line (C08 editor clause) --------
        if missing is not None:
            stats['missing_include_worlds'] += 1
            if not isinstance(exc, ValueError) or 'No files match' not in str(exc):
                return v('missing_include_not_reported', f'include {missing[1]!r} in {rel(missing[0])} matches nothing but the editor raised {type(exc).__name__ if exc else "nothing"}: {exc}')
            m = re.search(r'\((.*):(\d+)\)$', str(exc))
            bad = fs_unchanged()
            if bad:
                return v('failed_entry_touched_files', f'editor refused the include graph but {bad}')
            if not m:
                return v('missing_include_message', f'unexpected message {exc}', 'C08')
            got_line = int(m.group(2))
            if os.path.normpath(os.path.abspath(os.path.join(cwd, m.group(1)))) != missing[0]:
                # several includes may be missing in different files; only judge the line when it is the same file
                return []
            cands = {missing[2], missing[3]}
            if got_line not in cands:
                return v('editor_error_line', f'include error names line {got_line} of {rel(missing[0])}, the directive is on line {sorted(cands)} (0-based, store convention)', 'C08')
            return []
        # ---- body raised ---------------------------------------------------------------------
        if body_state.get('raised') or (raise_at is not None and not yielded):
            stats['fault:body_raises'] += 1
            if not isinstance(exc, BodyRaise):
                if exc is None:
                    return v('body_exception_swallowed', 'the body raised but the with-block completed normally')
                if yielded:
                    return v('body_exception_replaced', f'the body raised BodyRaise but {type(exc).__name__}: {exc} left the with-block')
            bad = fs_unchanged()
            if bad:
                return v('raise_touched_files', f'the body raised at step {raise_at} but {bad}')
            if opens_w or unlinks:
                return v('raise_touched_files', f'the body raised but files were opened for writing/unlinked: {[rel(p) for p in opens_w + unlinks][:4]}')
            if not yielded:
                return v('entry_fails', f'editing {path!r} (cwd {"root" if cwd == root else "parent"}) failed before the block: {type(exc).__name__}: {exc}')
            return []
        # ---- block completed --------------------------------------------------------------------
        if not yielded:
            return v('entry_fails', f'editing {path!r} (cwd {"root" if cwd == root else "parent"}) failed before the block: {type(exc).__name__}: {exc}')
        if exc is not None:
            return v('exit_fails', f'the block completed but leaving it raised {type(exc).__name__}: {exc} (path spelled {path!r}, cwd {"root" if cwd == root else "parent"})')
        # shadow session on raw bytes
        shadow: dict[str, Any] = {}
        orig_text: dict[str, str] = {}
        for p in closure:
            orig_text[p] = before[p].decode('utf-8')
            shadow[p] = parser().parse(orig_text[p], models.File)
        if recursive:
            key_abs = body_state.get('key_abs') or []
            if sorted(key_abs) != sorted(closure):
                extra = sorted(set(key_abs) - set(closure))
                miss = sorted(set(closure) - set(key_abs))
                dup = [p for p, c in collections.Counter(key_abs).items() if c > 1]
                return v('visited_set', f'files mapping holds {[rel(p) for p in extra]} beyond and lacks {[rel(p) for p in miss]} of the include closure; '
                         f'files present under several keys: {[rel(p) for p in dup]} (keys {body_state["keys"]})')
            for p in closure:
                n = opens_r.count(p)
                if n != 1:
                    return v('read_once', f'{rel(p)} was opened for reading {n} times')
            order = sorted(closure)
            rekeyed_now: list[str] = []
            popped: list[str] = []
            added: dict[str, str] = {}
            for op_index, op in enumerate(ops):
                if op['op'] in ('edit', 'read', 'pop') and order:
                    p = order[op['k'] % len(order)]
                    if p in popped or p in rekeyed_now:
                        continue        # (the body addresses files by their original key)
                    if op['op'] == 'edit':
                        apply_body_op(shadow[p], op)
                    elif op['op'] == 'pop':
                        popped.append(p)
                elif op['op'] == 'rekey' and order:
                    p = order[op['k'] % len(order)]
                    if op_index in body_state.get('rekeyed_ops', set()) and p not in popped and p not in rekeyed_now:
                        rekeyed_now.append(p)     # (mirrors exactly the re-keyings the body really performed)
                elif op['op'] == 'add':
                    newp = op['path'].replace('{ROOT}', root)
                    added[os.path.normpath(os.path.join(cwd, newp))] = print_model(parser().parse(op['text'], models.File))
        else:
            popped, added, rekeyed_now = [], {}, []
            for op in ops:
                if op['op'] == 'edit':
                    apply_body_op(shadow[entry_abs], op)
        expected = dict(before)
        changed = set()
        for p in closure:
            if p in popped:
                expected.pop(p, None)
                continue
            new_text = print_model(shadow[p])
            if new_text != orig_text[p]:
                expected[p] = new_text.encode('utf-8')
                changed.add(p)
        for p, t in added.items():
            expected[p] = t.encode('utf-8')
        for p in (rekeyed_now if recursive else []):
            # removed under one spelling and re-entered under another: still the same file, holding the model
            if p not in popped:
                expected[p] = print_model(shadow[p]).encode('utf-8')
                added[p] = print_model(shadow[p])
                popped.append(p)
        if changed:
            stats['worlds_with_edits'] += 1
        if any(b'\r' in before[p] for p in changed):
            stats['edited_file_with_cr'] += 1
        for p in sorted(set(expected) | set(after)):
            if expected.get(p) != after.get(p):
                if recursive and p in rekeyed_now:
                    return v('rekeyed_entry_lost', f'{rel(p)} was taken out of the mapping and put back under another spelling of its path; '
                             f'afterwards the file {"is missing" if p not in after else "does not hold the printed model"}')
                if p in popped:
                    return v('popped_not_deleted', f'{rel(p)} was removed from the mapping but still exists')
                if p in added:
                    return v('added_not_created', f'new entry {rel(p)} was not created with the printed model')
                if p in changed:
                    exp, got = expected[p], after.get(p)
                    if got is not None and got.replace(b'\r', b'') == exp.replace(b'\r', b''):
                        return v('carriage_returns', f'{rel(p)} was edited and rewritten with different line ends: expected {exp[:60]!r}, file holds {got[:60]!r}')
                    return v('edited_file_bytes', f'{rel(p)} does not hold the printed model: expected {exp[:80]!r}, file holds {(got or b"<missing>")[:80]!r}')
                if p in before:
                    return v('untouched_file_changed', f'{rel(p)} was not edited but its bytes changed or it disappeared')
                return v('stray_file', f'{rel(p)} was created')
        for p in opens_w:
            if p not in changed and p not in added:
                return v('unedited_file_rewritten', f'{rel(p)} was opened for writing although its model was not changed')
        for p in unlinks:
            if p not in popped:
                return v('stray_unlink', f'{rel(p)} was unlinked although it was not removed from the mapping')
        exp_dirs = set(dirs_before)
        for p in added:
            d = os.path.dirname(p)
            while d.startswith(root) and d not in exp_dirs:
                exp_dirs.add(d)
                d = os.path.dirname(d)
        if dirs_after != exp_dirs:
            return v('stray_directory', f'directories differ from expectation: {[rel(p) for p in sorted(dirs_after ^ exp_dirs)]}')
        return []

    # -- Engine interface -----------------------------------------------------------
    def generate(self, rng: random.Random, prop: str, tier: str, run: int) -> core.RunResult:
        world = self._gen_world(rng)
        api = rng.choice(['recursive', 'recursive', 'recursive', 'single'])
        entry = {'api': api, 'file': 'main.bean' if api == 'recursive' or rng.random() < 0.5 else rng.choice(sorted(k for k in world if k.endswith('.bean'))),
                 'spelling': rng.choice(['abs', 'bare', 'dot', 'updown', 'from_parent', 'from_subdir']), 'as_path': rng.random() < 0.5}
        if rng.random() < (0.5 if prop == 'C08' else 0.06):
            # an include that matches nothing, on a seeded line of some file
            victim = rng.choice(sorted(k for k in world if k.endswith('.bean'))) if prop != 'C08' else 'main.bean'
            text = world[victim]
            lines = text.split('\n')
            at = rng.randrange(len(lines) + 1) if rng.random() < 0.5 else len(lines)
            if at < len(lines):
                at = len(lines)   # only between whole directives: append at the end keeps the file parseable
            pre = '\n'.join(lines)
            nl = '' if pre.endswith('\n') or not pre else '\n'
            lead = rng.choice(['', '', '; leading comment\n'])
            world[victim] = pre + nl + lead + f'include "{rng.choice(["nomatch.bean", "nomatch-*.bean", "no/such/*.bean"])}"' + rng.choice(['', '\n'])
        n_ops = rng.choice([0, 1, 2, 3, 4, 6])
        ops: list[dict] = []
        for _ in range(n_ops):
            r = rng.random()
            if r < 0.5:
                how = rng.choice(['append', 'date', 'del', 'comment', 'meta', 'noop_roundtrip'])
                op = {'op': 'edit', 'k': rng.randrange(12), 'how': how}
                if how == 'append':
                    op['text'] = f'{rng.randrange(1990, 2030)}-01-0{rng.randrange(1, 9)} close Assets:New{rng.randrange(10)}'
                ops.append(op)
            elif r < 0.65:
                ops.append({'op': 'read', 'k': rng.randrange(12)})
            elif r < 0.72 and api == 'recursive':
                ops.append({'op': 'pop', 'k': rng.randrange(12)})
            elif r < 0.78 and api == 'recursive':
                ops.append({'op': 'rekey', 'k': rng.randrange(12), 'spell': rng.choice(['abs', 'dot', 'rel'])})
            elif r < 0.92 and api == 'recursive':
                name = rng.choice(['new1.bean', 'newdir/n2.bean', 'sub/new3.bean', 'newdir/deep/n4.bean'])
                if any(o.get('name') == name for o in ops) or name in world:
                    continue
                sp = rng.choice(['rel', 'abs', 'dot'])
                pathv = {'rel': name, 'abs': '{ROOT}/' + name, 'dot': './' + name}[sp]
                if entry['spelling'] == 'from_parent' and sp != 'abs':
                    pathv = 'root/' + name
                text = rng.choice(['', '', f'2000-01-01 open Assets:{name.split("/")[-1][:-5].capitalize()}\n', '; only a comment\n',
                                   f'2000-01-01 open Assets:{name.split("/")[-1][:-5].capitalize()}', '\n'])
                ops.append({'op': 'add', 'name': name, 'path': pathv, 'text': text})
        trace = {'knobs': {'faults': 'enumerated'}, 'world': world, 'entry': entry, 'glob_seed': rng.randrange(1 << 30), 'ops': ops}
        # enumerate the crash point: the plain run first, then a raise before each step k
        first = self._execute(trace, prop)
        if first.violations or first.skipped:
            return first
        total = first
        for k in range(len(ops) + 1):
            t = copy.deepcopy(trace)
            t['ops'] = ops[:k] + [{'op': 'raise'}] + ops[k:]
            if (run + k) % 2 == 0:
                # afterwards the same Editor is used again: nothing of the aborted session may reach the disk
                t['followup'] = [] if k % 2 == 0 else [{'op': 'read', 'k': k}, {'op': 'edit', 'k': k + 1, 'how': 'noop_roundtrip'}]
            r = self._execute(t, prop)
            total.stats.update(r.stats)
            total.log.extend(r.log)
            total.relevant_ops += r.relevant_ops
            if r.violations:
                r.stats = total.stats
                r.log = total.log
                return r
        total.history_sig = core.sha(repr((entry, [o['op'] + o.get('how', '') for o in ops], sorted(world))))
        total.states.add(core.sha(repr(sorted((k, core.sha(v)) for k, v in world.items()))))
        return total

    def replay(self, trace: dict, prop: str) -> core.RunResult:
        return self._execute(copy.deepcopy(trace), prop)

    def shrink_candidates(self, trace: dict):
        world = trace['world']
        for name in sorted(world):
            if name != trace['entry']['file']:
                w = dict(world)
                del w[name]
                yield dict(trace, world=w)
        for name in sorted(world):
            lines = world[name].split('\n')
            if len(lines) > 1:
                for i in range(len(lines)):
                    w = dict(world)
                    w[name] = '\n'.join(lines[:i] + lines[i + 1:])
                    yield dict(trace, world=w)
        if trace['entry'].get('as_path'):
            yield dict(trace, entry=dict(trace['entry'], as_path=False))

    def describe(self) -> dict:
        return {'real_code': ['editor.Editor.edit_file / edit_file_recursive', 'parser, printer, models', 'the real glob module and the kernel file system (tmpfs)'],
                'stubs': [],
                'seams': ['builtins.open, io.open, os.unlink/remove/makedirs/mkdir/rmdir/rename/replace, glob.glob replaced by recording pass-throughs; '
                          'glob results sorted then permuted by the run seed', 'cwd and path spelling per run', 'raise injected before every step k of the body (enumerated)'],
                'faults_not_injected': 'OSError, short/torn writes, ENOSPC: C16 says nothing about a half-failed write phase'}
