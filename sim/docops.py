"""docsim operation catalogue: seeded generation of concrete, path-addressed
operations from the live tree, their execution, and the per-operation oracles
(C02 token edits, C03 child edits, C09 value read-back, C10 view semantics,
C11 copy-time clauses, C14 claim semantics, C17 spacing, C18 indentation).
"""
from __future__ import annotations

import copy
import datetime
import decimal
import random
from typing import Any, Callable, Optional

from . import core
from . import docgen
from . import introspect as I
from . import walker as W
from .docbase import (Diff, Session, Unresolvable, dec, enc, enumerate_nodes, is_sep, parser, print_model, text_of)

models = I.models
Violation = core.Violation
BlockComment = models.BlockComment

# view member -> (raw member, filter types, conversion)
VIEW_TABLE: dict[str, tuple[str, Any, str]] = {
    'tags': ('raw_tags_links', (models.Tag,), 'value'),
    'links': ('raw_tags_links', (models.Link,), 'value'),
    'currencies': ('raw_currencies', (models.Currency,), 'value'),
    'raw_meta': ('raw_meta_with_comments', (models.MetaItem,), 'id'),
    'meta': ('raw_meta_with_comments', (models.MetaItem,), 'id'),
    'raw_postings': ('raw_postings_with_comments', (models.Posting,), 'id'),
    'postings': ('raw_postings_with_comments', (models.Posting,), 'id'),
    'raw_directives': ('raw_directives_with_comments', 'directive', 'id'),
    'directives': ('raw_directives_with_comments', 'directive', 'id'),
    'values': ('raw_values', 'custom', 'custom'),
}
CUSTOM_RAW_TYPES = {
    ('CostSpec', 'raw_number_per'): (models.NumberExpr,),
    ('CostSpec', 'raw_number_total'): (models.NumberExpr,),
    ('CostSpec', 'raw_currency'): (models.Currency,),
    ('Transaction', 'raw_payee'): (models.EscapedString,),
    ('Transaction', 'raw_narration'): (models.EscapedString,),
}
UNSAFE_MEMBERS = {'raw_string0', 'raw_string1', 'raw_string2', 'string0', 'string1', 'string2'}
COST_GROUP = {'number_per', 'number_total', 'currency', 'raw_number_per', 'raw_number_total', 'raw_currency',
              'raw_compound_amount_comp', 'raw_amount_comp', 'raw_number_comp', 'raw_currency_comp'}
TXN_GROUP = {'payee', 'narration', 'raw_payee', 'raw_narration', 'string0', 'string1', 'string2',
             'raw_string0', 'raw_string1', 'raw_string2'}
DIRECTIVE_TYPES = tuple(t for t in I.field_types(I.SLOTS[models.File][0].field) if t is not BlockComment)
CUSTOM_TYPES = I.field_types(next(s for s in I.SLOTS[models.Custom] if s.name == '_values').field)


def view_filter(member: str) -> tuple[str, tuple, str]:
    if member not in VIEW_TABLE:
        raise core.HarnessError(f'unknown view member {member}')
    raw, types, conv = VIEW_TABLE[member]
    if types == 'directive':
        types = DIRECTIVE_TYPES
    elif types == 'custom':
        types = CUSTOM_TYPES
    return raw, types, conv


def custom_simplify(x: Any) -> Any:
    if isinstance(x, (models.EscapedString, models.Date, models.Bool, models.NumberExpr)):
        return x.value
    return x


def view_expected(owner: Any, member: str) -> list:
    raw, types, conv = view_filter(member)
    items = [x for x in getattr(owner, raw) if isinstance(x, types)]
    if conv == 'value':
        return [x.value for x in items]
    if conv == 'custom':
        return [custom_simplify(x) for x in items]
    return items


def same_seq(a: list, b: list) -> bool:
    if len(a) != len(b):
        return False
    for x, y in zip(a, b):
        if isinstance(x, models.RawModel) or isinstance(y, models.RawModel):
            if x is not y:
                return False
        elif x != y or type(x) != type(y):
            return False
    return True


class Effect:
    def __init__(self, kind: str, cls: str, target: str = ''):
        self.kind = kind
        self.cls = cls
        self.target = target
        self.outcome = 'ok'
        self.touched: set = set()
        self.viol: list[Violation] = []
        self.noop_expected = False      # C04: a non-edit
        self.exc: Optional[BaseException] = None
        self.fault: Optional[str] = None
        self.known: Optional[str] = None
        self.wrapper_replaced: Optional[tuple] = None

    def v(self, prop: str, clause: str, step: int, msg: str) -> None:
        self.viol.append(Violation(prop, clause, step, msg))


# ==========================================================================
# donors

def gen_donor(sess: Session, rng: random.Random, types: tuple, *, safe: bool, indent: str = '    ',
              allow_pool: bool = True) -> Optional[dict]:
    """A recipe for a fresh (detached) node of one of `types`."""
    types = tuple(t for t in types if t is not None)
    if not types:
        return None
    if allow_pool and rng.random() < 0.25:
        ks = [k for k, m in enumerate(sess.pool) if m is not None and isinstance(m, types)
              and _indent_fits(m, indent, safe) and self_contained(m)]
        if ks:
            # a pool node that lost children earlier: moving it on empties the store those deleted
            # children still name
            zs = getattr(sess, 'zombies', [])
            hosts = [k for k in ks if any(getattr(z, 'token_store', None) is sess.pool[k].token_store for z in zs)]
            if hosts and rng.random() < 0.6:
                return {'pool': rng.choice(hosts)}
            return {'pool': rng.choice(ks)}
    t = rng.choice(types)
    if issubclass(t, models.RawTokenModel):
        if t is BlockComment:
            v = docgen.block_comment_value(rng)
            if rng.random() < 0.35 and '\r' not in v:
                # the other public constructor: from the comment's own text
                return {'tok_raw': 'BlockComment', 'raw': '\n'.join(f'{indent}; {line}' if line else f'{indent};' for line in v.split('\n'))}
            return {'tok': 'BlockComment', 'v': v, 'indent': indent}
        v = docgen.value_for(rng, t, safe)
        if v is None:
            return {'tok_default': t.__name__}
        return {'tok': t.__name__, 'v': enc(v)}
    if t is models.NumberAddExpr:
        return {'add_expr': docgen.expr_text(rng)}
    if t.__name__ in FROM_VALUE_CLASSES and rng.random() < 0.3:
        r = gen_from_value(rng, t.__name__, indent=indent or '    ')
        if r is not None:
            if t.__name__ in ('Posting', 'MetaItem') and not indent and safe:
                pass
            else:
                return r
    text = docgen.snippet(rng, t, indent=indent, safe=safe)
    if text is None:
        return None
    return {'parse': t.__name__, 'text': text}


def self_contained(m: Any) -> bool:
    if hasattr(m, 'repeated') and not hasattr(m, 'token_store'):
        m = m.repeated      # a repeated-field wrapper: judge the node it wraps
    st = m.token_store
    if st is None:
        return True
    try:
        return m.first_token is st.get_first() and m.last_token is st.get_last()
    except Exception:
        return False


def _indent_fits(m: Any, indent: str, safe: bool) -> bool:
    if not safe:
        return True
    ind = getattr(m, 'indent', None)
    if isinstance(ind, str):
        return bool(ind) == bool(indent)
    return True


FROM_VALUE_CLASSES = ['Open', 'Close', 'Balance', 'Pad', 'Note', 'Document', 'Event', 'Query', 'Price', 'Commodity', 'Custom',
                      'Option', 'Include', 'Plugin', 'Pushtag', 'Poptag', 'Pushmeta', 'Popmeta', 'MetaItem', 'Amount',
                      'UnitPrice', 'TotalPrice', 'Posting', 'Transaction', 'CostSpec']


def gen_from_value(rng: random.Random, cls_name: str, indent: str = '    ', depth: int = 0) -> Optional[dict]:
    """A JSON recipe for Class.from_value(...) with a random subset of the optional arguments."""
    import inspect
    cls = getattr(models, cls_name)
    try:
        params = inspect.signature(cls.from_value).parameters
    except (AttributeError, ValueError):
        return None
    args: dict = {}

    def opt(p: float = 0.5) -> bool:
        return rng.random() < p

    def simple_meta_value():
        k = rng.randrange(5)
        return [enc(docgen.string_value(rng)), enc(docgen.date_value(rng)), enc(docgen.number_value(rng)), rng.random() < 0.5, None][k]
    for name, p in params.items():
        optional = p.default is not inspect.Parameter.empty
        if name == 'date':
            args[name] = enc(docgen.date_value(rng))
        elif name in ('account', 'source_account'):
            args[name] = docgen.account(rng)
        elif name == 'currency':
            if cls_name in ('UnitPrice', 'TotalPrice', 'CostSpec') and opt(0.3):
                args[name] = None
            else:
                args[name] = docgen.currency_no_slash(rng)
        elif name == 'currencies':
            args[name] = [docgen.currency_no_slash(rng) for _ in range(rng.choice([0, 1, 2, 3]))]
        elif name in ('number', 'number_per', 'number_total', 'tolerance'):
            if (optional or name in ('tolerance', 'number_per', 'number_total') or cls_name in ('UnitPrice', 'TotalPrice', 'Posting')) and opt(0.4):
                args[name] = None
            else:
                args[name] = enc(docgen.signed_number_value(rng) if name == 'number' else docgen.number_value(rng))
        elif name in ('comment', 'filename', 'type', 'description', 'name', 'query_string', 'config', 'booking', 'label'):
            if optional and opt(0.5):
                continue
            args[name] = 'STRICT' if name == 'booking' else docgen.string_value(rng, multiline=(name in ('comment', 'description', 'query_string')))
        elif name in ('payee', 'narration'):
            args[name] = None if opt(0.4) else docgen.string_value(rng)
        elif name in ('key', 'value') and cls_name == 'Option':
            args[name] = docgen.string_value(rng, multiline=False)
        elif name == 'key':
            args[name] = docgen.meta_key_value(rng)
        elif name == 'value':
            args[name] = simple_meta_value()
        elif name == 'values':
            args[name] = [[enc(docgen.string_value(rng, multiline=False)), enc(docgen.date_value(rng)), rng.random() < 0.5,
                           enc(docgen.number_value(rng))][rng.randrange(4)] for _ in range(rng.choice([0, 1, 2, 4]))]
        elif name == 'tag':
            args[name] = docgen.taglink_value(rng)
        elif name in ('tags', 'links'):
            args[name] = [docgen.taglink_value(rng) for _ in range(rng.choice([0, 0, 1, 2]))]
        elif name in ('leading_comment', 'trailing_comment'):
            if opt(0.3):
                args[name] = docgen.block_comment_value(rng)
        elif name == 'inline_comment':
            if opt(0.3):
                args[name] = docgen.inline_comment_value(rng)
        elif name == 'meta':
            if opt(0.4):
                args[name] = {docgen.meta_key_value(rng) + str(i): simple_meta_value() for i in range(rng.choice([1, 2, 3]))}
        elif name == 'indent':
            args[name] = indent
        elif name == 'indent_by':
            if opt(0.3):
                args[name] = rng.choice(['  ', '\t', '    ', '      '])
        elif name == 'flag':
            if cls_name == 'Transaction':
                args[name] = rng.choice(docgen.FLAGS)
            elif opt(0.3):
                args[name] = rng.choice(docgen.FLAGS)
        elif name == 'merge':
            args[name] = opt(0.2)
        elif name == 'amount':
            args[name] = {'from_value': 'Amount', 'args': gen_from_value(rng, 'Amount')['args']}
        elif name == 'postings':
            if depth > 0:
                args[name] = []
            else:
                args[name] = [gen_from_value(rng, 'Posting', indent='    ', depth=1) for _ in range(rng.choice([0, 1, 2, 3]))]
        elif name == 'cost':
            if opt(0.3):
                r = gen_from_value(rng, 'CostSpec', depth=depth + 1)
                a = r['args']
                if a.get('number_per') is not None and a.get('number_total') is not None and a.get('currency') is None:
                    a['currency'] = 'USD'
                args[name] = r
        elif name == 'price':
            if opt(0.3):
                args[name] = gen_from_value(rng, rng.choice(['UnitPrice', 'TotalPrice']), depth=depth + 1)
        else:
            if not optional:
                return None
    if cls_name == 'CostSpec' and args.get('number_per') is not None and args.get('number_total') is not None and args.get('currency') is None:
        args['currency'] = 'USD'     # (both numbers without a currency is the documented rejection)
    return {'from_value': cls_name, 'args': args}


def build_from_value(recipe: dict) -> Any:
    cls = getattr(models, recipe['from_value'])

    def dv(x: Any) -> Any:
        if isinstance(x, dict) and 'from_value' in x:
            return build_from_value(x)
        if isinstance(x, dict) and ('dec' in x or 'date' in x):
            return dec(x)
        if isinstance(x, dict):
            return {k: dv(v) for k, v in x.items()}
        if isinstance(x, list):
            return [dv(v) for v in x]
        return x
    return cls.from_value(**{k: dv(v) for k, v in recipe['args'].items()})


_CLASS_BY_NAME: dict[str, type] = {}
for _c in list(models.TREE_MODELS.values()) + list(models.TOKEN_MODELS.values()):
    _CLASS_BY_NAME[_c.__name__] = _c


def make_donor(sess: Session, recipe: Any) -> Any:
    if recipe is None:
        return None
    if 'pool' in recipe:
        k = recipe['pool']
        if k >= len(sess.pool) or sess.pool[k] is None:
            raise Unresolvable('pool donor gone')
        if not self_contained(sess.pool[k]):
            raise Unresolvable('pool donor no longer spans its whole store (spacing was added at its edge)')
        return sess.pool[k]
    if 'tok' in recipe:
        cls = _CLASS_BY_NAME[recipe['tok']]
        if cls is BlockComment:
            return cls.from_value(recipe['v'], indent=recipe.get('indent', ''))
        return cls.from_value(dec(recipe['v']))
    if 'tok_default' in recipe:
        return _CLASS_BY_NAME[recipe['tok_default']].from_default()
    if 'tok_raw' in recipe:
        return _CLASS_BY_NAME[recipe['tok_raw']].from_raw_text(recipe['raw'])
    if 'from_value' in recipe:
        return build_from_value(recipe)
    if 'parse' in recipe:
        cls = _CLASS_BY_NAME[recipe['parse']]
        try:
            return parser().parse(recipe['text'], cls)
        except Exception as e:
            raise Unresolvable(f'donor text rejected: {e}')
    if 'add_expr' in recipe:
        try:
            return parser().parse(recipe['add_expr'], models.NumberExpr).raw_number_add_expr
        except Exception as e:
            raise Unresolvable(f'donor text rejected: {e}')
    if 'zombie' in recipe:
        zs = getattr(sess, 'zombies', [])
        if recipe['zombie'] >= len(zs):
            raise Unresolvable('no such deleted node')
        z = zs[recipe['zombie']]
        try:
            dead = z.first_token.store_handle is None
        except Exception:
            dead = False
        if not dead:
            raise Unresolvable('node is not a deleted one any more')
        try:
            if z.token_store is not None and len(z.token_store) == 0:
                sess.stats['probe:deleted_donor_store_emptied'] += 1
        except Exception:
            pass
        return z
    if 'attached' in recipe:
        node = sess.resolve(recipe['attached'])
        if self_contained(node):
            raise Unresolvable('the node is not attached anywhere (any more): precondition of the fault is gone')
        return node
    if 'copy_of' in recipe:
        return copy.deepcopy(sess.resolve(recipe['copy_of']))
    if 'wrapper_copy' in recipe:
        return copy.deepcopy(sess.resolve(recipe['wrapper_copy']))
    raise core.HarnessError(f'bad donor recipe {recipe!r}')


def consume_donors(sess: Session, recipes: list) -> None:
    """After a successful insertion pool donors have moved into the target."""
    for r in recipes:
        if isinstance(r, dict) and 'pool' in r and r['pool'] < len(sess.pool):
            sess.pool[r['pool']] = None


def donor_roots(recipes: list) -> set:
    return {r['pool'] for r in recipes if isinstance(r, dict) and 'pool' in r}


# ==========================================================================
# helpers

def ids_of(node: Any) -> set:
    if node is None:
        return set()
    try:
        return {id(t) for t in node.tokens}
    except Exception:
        return {id(t) for t in W.leaves(node)}


def span_in(toks_index: dict, node: Any) -> Optional[tuple[int, int]]:
    try:
        a = toks_index.get(id(node.first_token))
        b = toks_index.get(id(node.last_token))
    except Exception:
        return None
    if a is None or b is None:
        return None
    return (a, b)


def check_child_edit(eff: Effect, step: int, prop: str, before: list, after: list,
                     span_before: Optional[tuple], span_after: Optional[tuple],
                     old_ids: set, new_ids: set, siblings: list[tuple[str, list]], what: str) -> None:
    """R_text window oracle of C03.  Precondition (statement: "in a normally parsed
    document"): no unowned comment sits in the store; deleting next to an unowned
    comment legitimately takes it along."""
    if any(isinstance(t, BlockComment) and not t.claimed for t, _ in before):
        return
    d = Diff(before, after)
    if not d.order_preserved(False):
        eff.v(prop, 'order', step, f'{what}: surviving tokens changed their relative order')
        return
    for i in d.removed:
        t = before[i][0]
        if id(t) not in old_ids and not is_sep_text(t, before[i][1]):
            eff.v(prop, 'foreign_removed', step, f'{what}: token {before[i][1]!r} ({type(t).__name__}) removed but is not part of the affected child')
            return
        if span_before and not (span_before[0] <= i <= span_before[1]):
            eff.v(prop, 'outside_parent', step, f'{what}: token {before[i][1]!r} removed outside the parent span')
            return
    for i in d.added:
        t = after[i]
        if id(t) not in new_ids and not is_sep(t):
            eff.v(prop, 'foreign_added', step, f'{what}: token {t.raw_text!r} ({type(t).__name__}) added but is not part of the new child')
            return
        if span_after and not (span_after[0] <= i <= span_after[1]):
            eff.v(prop, 'outside_parent', step, f'{what}: token {t.raw_text!r} added outside the parent span')
            return
    for i in d.changed:
        t = before[i][0]
        if id(t) not in old_ids and id(t) not in new_ids:
            eff.v(prop, 'foreign_changed', step, f'{what}: text of unrelated token changed {before[i][1]!r} -> {t.raw_text!r}')
            return
    for run in d.removed_runs():
        if not any(id(before[i][0]) in old_ids for i in run):
            eff.v(prop, 'stray_separator', step, f'{what}: separators {text_of([before[i][0] for i in run])!r} removed away from the affected child')
            return
    for run in d.added_runs():
        if not any(id(after[i]) in new_ids for i in run):
            eff.v(prop, 'stray_separator', step, f'{what}: separators {text_of([after[i] for i in run])!r} added away from the affected child')
            return
    after_ids = d.after_ids
    for name, sib in siblings:
        # every sibling keeps its token identities, order and text
        pos = [after_ids.get(id(t)) for t, _ in sib]
        if any(p is None for p in pos) or any(b != a + 1 for a, b in zip(pos, pos[1:])) or any(t.raw_text != txt for t, txt in sib):
            eff.v(prop, 'sibling', step, f'{what}: sibling {name} changed')
            return


def is_sep_text(tok: Any, text: str) -> bool:
    return isinstance(tok, W.TRIVIA) or not text


def sibling_snapshot(parent: Any, exclude_slots: set) -> list[tuple[str, list]]:
    out = []
    for name, kind, child in W.children(parent):
        if child is None or name in exclude_slots:
            continue
        if isinstance(child, I.Repeated):
            for i, it in enumerate(child.items):
                try:
                    out.append((f'{name}[{i}]', [(t, t.raw_text) for t in it.tokens]))
                except Exception:
                    pass
        else:
            try:
                out.append((name, [(t, t.raw_text) for t in child.tokens]))
            except Exception:
                pass
    return out


def store_tokens(node: Any) -> list:
    st = node.token_store
    if st is None:
        return [node] if isinstance(node, models.RawTokenModel) else []
    return list(st)


def root_of(sess: Session, ref: dict) -> Any:
    r = ref['r']
    if r == 'doc':
        return sess.root
    if r[0] == 'pool':
        return sess.pool[r[1]]
    return None


INDEX_FAMILY = ['0', '1', 'mid', 'len-1', 'len', '-1', '-len', '-len-1', 'len+1']


def pick_index(rng: random.Random, n: int, valid_bias: float = 0.75) -> int:
    if n and rng.random() < valid_bias:
        return rng.choice([0, n - 1, n // 2, -1, -n, rng.randrange(n)])
    return rng.choice([0, 1, n // 2, n - 1, n, -1, -n, -n - 1, n + 1])


def pick_slice(rng: random.Random, n: int) -> list:
    def b():
        return rng.choice([None, 0, 1, n // 2, n - 1, n, -1, -n, -n - 1, n + 1, rng.randrange(n + 1)])
    step = rng.choice([None, None, None, 1, 2, -1, 3, -2])
    return [b(), b(), step]


# ==========================================================================
# generation

class Gen:
    """Generates one concrete op from the live session state."""

    def __init__(self, sess: Session, rng: random.Random, profile: dict):
        self.s = sess
        self.rng = rng
        self.p = profile
        self.safe = profile.get('syntax_safe', False)
        self._nodes: Optional[list] = None

    def nodes(self) -> list[tuple[dict, Any]]:
        if self._nodes is None:
            out = []
            for path, node in enumerate_nodes(self.s.root, []):
                out.append(({'r': 'doc', 'p': path}, node))
            if self.p.get('pool_edits', 0.15) > 0:
                for k, m in enumerate(self.s.pool):
                    if m is not None and isinstance(m, models.RawTreeModel) and not isinstance(m, I.SPECIAL_EXPR):
                        for path, node in enumerate_nodes(m, []):
                            out.append(({'r': ['pool', k], 'p': path}, node))
                    elif m is not None and isinstance(m, models.RawTokenModel):
                        out.append(({'r': ['pool', k], 'p': []}, m))     # a free token: editable while detached
            self._nodes = out
        return self._nodes

    def pick(self, pred: Callable[[Any], bool], prefer_recent: bool = True) -> Optional[tuple[dict, Any]]:
        rng = self.rng
        cands = [(ref, n) for ref, n in self.nodes() if pred(n)]
        if not cands:
            return None
        pool_w = self.p.get('pool_edits', 0.15)
        docs = [c for c in cands if c[0]['r'] == 'doc']
        pools = [c for c in cands if c[0]['r'] != 'doc']
        if self.s.recent and prefer_recent and rng.random() < self.p.get('recent_bias', 0.3):
            rec_ids = set()
            for r in self.s.recent[-4:]:
                rec_ids.update(id(x) for _, x in W.iter_nodes(r))
            rc = [c for c in cands if id(c[1]) in rec_ids]
            if rc:
                return rng.choice(rc)
        if pools and (not docs or rng.random() < pool_w):
            return rng.choice(pools)
        return rng.choice(docs) if docs else rng.choice(pools)

    # -- per class generators --------------------------------------------------
    def gen(self, cls: str) -> Optional[dict]:
        fn = getattr(self, 'gen_' + cls)
        return fn()

    def owner_indent(self, node: Any) -> str:
        ind = getattr(node, 'indent', None)
        return ind if isinstance(ind, str) else ''

    def gen_T(self) -> Optional[dict]:
        rng = self.rng
        safe = self.safe

        def ok(n):
            if not isinstance(n, models.RawTokenModel):
                return False
            if isinstance(n, models.Indent) and safe:
                return False
            return hasattr(type(n), 'value') or not safe
        c = self.pick(ok)
        if not c:
            return None
        ref, tok = c
        r = rng.random()
        if isinstance(tok, BlockComment) and r < 0.25 and (not safe or tok.indent):
            ind = rng.choice(['    ', '  ', '\t', ' ']) if (safe or rng.random() < .7) else rng.choice(['', '   ', '\t\t'])
            return {'op': 'comment_indent', 't': ref, 'v': ind}
        if hasattr(type(tok), 'value') and (r < 0.7 or safe and r < 0.85):
            v = docgen.value_for(rng, type(tok), safe)
            if v is None:
                return None
            return {'op': 'tok_value', 't': ref, 'v': enc(v)}
        # raw_text: a lexeme valid for the token class (safe) or any text its parser accepts (unsafe)
        raw = self.raw_lexeme(tok)
        if raw is None:
            return None
        return {'op': 'tok_raw', 't': ref, 'v': raw}

    def raw_lexeme(self, tok: Any) -> Optional[str]:
        rng = self.rng
        n = type(tok).__name__
        if n == 'Date':
            return docgen.date_text(rng)
        if n == 'Number':
            return docgen.number_text(rng)
        if n == 'EscapedString':
            return docgen.string_text(rng)
        if n == 'BlockComment':
            ind = tok.indent
            return '\n'.join(ind + ';' + rng.choice(['', ' ']) + w for w in rng.sample(['a', 'b c', '', ';x'], rng.choice([1, 2])))
        if n == 'InlineComment':
            return ';' + rng.choice(['', ' ', '  ']) + docgen.inline_comment_value(rng)
        if hasattr(type(tok), 'value'):
            v = docgen.value_for(rng, type(tok), self.safe)
            if v is None:
                return None
            return type(tok).from_value(v).raw_text
        if self.safe:
            return None
        if isinstance(tok, (models.Whitespace,)):
            return rng.choice([' ', '  ', '\t'])
        if isinstance(tok, models.Newline):
            return rng.choice(['\n', '\r\n', '\n\n'])
        return None

    def gen_N(self) -> Optional[dict]:
        """Node-level: raw setters and sequence ops on raw wrappers."""
        rng = self.rng
        r0 = rng.random()
        if r0 < 0.07:
            # only plain repeated wrappers: deep copies of comment-interleaving wrappers are plain wrappers,
            # so no valid donor for a raw_*_with_comments property can be made through the public API
            # ... and comment-interleaving ones when the source holds no standalone comment (its copy is then a
            # faithful plain wrapper); the views of entries (meta, postings, directives) hang on those
            ws = self.wrappers(True, {'raw_repeated', 'raw_repeated_comments'})
            if ws:
                ref, owner, m = rng.choice(ws)
                srcs = [w for w in ws if w[2].name == m.name and w[2].types == m.types]
                if m.kind == 'raw_repeated_comments':
                    def clean(w):
                        try:
                            return not any(isinstance(x, BlockComment) for x in self.s.resolve(w[0]))
                        except Exception:
                            return False
                    srcs = [w for w in srcs if clean(w)]
                if srcs:
                    src = rng.choice(srcs)
                    return {'op': 'set_wrapper', 't': {'r': ref['r'], 'p': ref['p'][:-1]}, 'm': m.name, 'v': {'wrapper_copy': src[0]}}
        if r0 < 0.5:
            return self.gen_seq(raw_only=True)
        if r0 < 0.58:
            op = self.gen_glued_removal()
            if op is not None:
                return op
        safe = self.safe

        def settable(n):
            return isinstance(n, models.RawTreeModel) and any(
                m.kind in ('raw_required', 'raw_optional', 'unordered') or (type(n).__name__, m.name) in CUSTOM_RAW_TYPES
                for m in I.members_of(n).values())
        c = self.pick(settable)
        if not c:
            return None
        ref, node = c
        ms = [m for m in I.members_of(node).values()
              if m.kind in ('raw_required', 'raw_optional', 'unordered') or (type(node).__name__, m.name) in CUSTOM_RAW_TYPES]
        if safe:
            ms = [m for m in ms if m.name not in UNSAFE_MEMBERS and m.name != 'raw_indent']
        if not ms:
            return None
        m = rng.choice(ms)
        types = m.types or CUSTOM_RAW_TYPES.get((type(node).__name__, m.name), ())
        types = tuple(t for t in types if t not in (models.Eol, models.DedentMark))
        can_none = m.kind != 'raw_required'
        cur = getattr(node, m.name)
        if can_none and (rng.random() < (0.5 if cur is not None else 0.1)):
            return {'op': 'set_raw', 't': ref, 'm': m.name, 'v': None}
        if not types:
            return None
        if all(issubclass(t, models.RawTokenModel) and not hasattr(t, 'from_value') and not hasattr(t, 'from_default') for t in types):
            return None
        indent = self.owner_indent(node)
        donor = gen_donor(self.s, rng, types, safe=safe, indent=indent)
        if donor is None:
            return None
        return {'op': 'set_raw', 't': ref, 'm': m.name, 'v': donor}

    def gen_glued_removal(self) -> Optional[dict]:
        """Removal of an optional child that touches a neighbouring token without any blank between
        ('!Assets:Cash', '2# 3 USD', 'USD{...}@ 1 X'): there the separator rules have nothing to take."""
        cands = []
        for ref, node in self.nodes():
            if not isinstance(node, models.RawTreeModel) or isinstance(node, I.SPECIAL_EXPR):
                continue
            for m in I.members_of(node).values():
                if m.kind != 'raw_optional' or (self.safe and m.name in UNSAFE_MEMBERS):
                    continue
                try:
                    cur = getattr(node, m.name)
                    if cur is None:
                        continue
                    st = cur.token_store
                    if st is None or st is not node.token_store:
                        continue
                    glued = False
                    for step, edge in ((st.get_prev, cur.first_token), (st.get_next, cur.last_token)):
                        t = step(edge)
                        hops = 0
                        while t is not None and not t.raw_text and hops < 10000:
                            nxt = step(t)
                            hops += 1
                            if nxt is t:
                                break
                            t = nxt
                        if t is not None and type(t).__name__ not in ('Whitespace', 'Newline', 'Indent', 'BlockComment', 'InlineComment'):
                            glued = True
                    if glued:
                        cands.append((ref, m.name))
                except Exception:
                    continue
        if not cands:
            return None
        ref, name = self.rng.choice(cands)
        return {'op': 'set_raw', 't': ref, 'm': name, 'v': None}

    def wrappers(self, raw_only: bool, kinds: Optional[set] = None) -> list[tuple[dict, Any, Any, I.Member]]:
        out = []
        for ref, node in self.nodes():
            if isinstance(node, models.RawTokenModel):
                continue
            for m in I.members_of(node).values():
                if m.kind in ('raw_repeated', 'raw_repeated_comments') or (
                        not raw_only and m.kind in ('filtered_view', 'string_view', 'raw_meta_view', 'meta_view', 'custom_view')):
                    if kinds and m.kind not in kinds:
                        continue
                    out.append(({'r': ref['r'], 'p': ref['p'] + [m.name]}, node, m))
        return out

    def item_domain(self, owner: Any, m: I.Member) -> tuple[str, tuple]:
        """('node', types) or ('str', (token class,)) or ('custom', ())."""
        if m.kind in ('raw_repeated', 'raw_repeated_comments'):
            return 'node', m.types
        if m.kind in ('raw_meta_view', 'meta_view'):
            return 'node', (models.MetaItem,)
        raw, types, conv = view_filter(m.name)
        if conv == 'value':
            return 'str', types
        if conv == 'custom':
            return 'custom', ()
        return 'node', types

    def gen_item(self, owner: Any, m: I.Member) -> Any:
        rng = self.rng
        dom, types = self.item_domain(owner, m)
        if dom == 'str':
            return {'val': enc(docgen.value_for(rng, types[0], self.safe))}
        if dom == 'custom':
            k = rng.randrange(6)
            if k == 0:
                return {'val': enc(docgen.string_value(rng, multiline=False))}
            if k == 1:
                return {'val': enc(docgen.date_value(rng))}
            if k == 2:
                return {'val': rng.random() < 0.5}
            if k == 3:
                return {'val': enc(docgen.number_value(rng) if self.safe else docgen.signed_number_value(rng))}
            return {'node': gen_donor(self.s, rng, (models.Account, models.Amount), safe=self.safe, allow_pool=False)}
        types = tuple(t for t in types)
        if self.safe and type(owner) is models.Custom:
            types = tuple(t for t in types if t not in (models.NumberExpr, models.Amount)) or types
        indent = self.child_indent(owner, m)
        if BlockComment in types and rng.random() > 0.15:
            types = tuple(t for t in types if t is not BlockComment) or types
        d = gen_donor(self.s, rng, types, safe=self.safe, indent=indent)
        return {'node': d} if d else None

    def child_indent(self, owner: Any, m: I.Member) -> str:
        """Indent a raw donor needs to fit as an item of owner.<m> (syntax-safe runs)."""
        if isinstance(owner, models.File):
            return ''
        base = self.owner_indent(owner)
        ib = getattr(owner, 'indent_by', '    ') or '    '
        if not self.safe and self.rng.random() < 0.3:
            return self.rng.choice(['', ' ', '\t', '      '])
        return base + ib

    def gen_seq(self, raw_only: bool = False, kinds: Optional[set] = None) -> Optional[dict]:
        rng = self.rng
        ws = self.wrappers(raw_only, kinds)
        if not ws:
            return None
        # prefer wrappers with content a little
        nonempty = [w for w in ws if len(self.s.resolve(w[0])) > 0]
        ref, owner, m = rng.choice(nonempty if nonempty and rng.random() < 0.6 else ws)
        try:
            w = self.s.resolve(ref)
        except Unresolvable:
            return None
        n = len(w)
        dom, _ = self.item_domain(owner, m)
        kind = rng.choice(['append', 'insert', 'insert', 'pop', 'pop', 'setitem', 'setitem', 'setslice', 'setslice',
                           'delitem', 'delslice', 'extend', 'clear', 'remove', 'discard', 'getitem', 'reverse', 'iadd', 'index_count'])
        if self.safe and type(owner) is models.Custom and kind in ('pop', 'delitem', 'delslice', 'clear', 'remove', 'discard'):
            kind = 'append'
        if kind == 'reverse' and m.kind == 'custom_view':
            # the inherited MutableSequence.reverse swaps pairwise by assignment; on a list mixing simplified
            # values and preserved nodes it is not one of the operations the statements list (DESIGN 11.2)
            kind = 'getitem'
        op: dict = {'op': 'seq', 'k': kind, 't': ref, 'm': m.name}
        if kind in ('append',):
            it = self.gen_item(owner, m)
            if it is None:
                return None
            op['items'] = [it]
        elif kind == 'insert':
            it = self.gen_item(owner, m)
            if it is None:
                return None
            op['items'] = [it]
            op['i'] = pick_index(rng, n, 0.5)
        elif kind == 'pop':
            op['i'] = None if rng.random() < 0.3 else pick_index(rng, n)
        elif kind in ('setitem',):
            it = self.gen_item(owner, m)
            if it is None:
                return None
            op['items'] = [it]
            op['i'] = pick_index(rng, n)
        elif kind == 'setslice' and n >= 2 and dom == 'node' and rng.random() < 0.3 and m.kind in ('raw_repeated', 'raw_repeated_comments'):
            # same length, same element types, other order: view index tables must follow the positions
            a = rng.randrange(n - 1)
            b = min(n, a + rng.choice([2, 2, 3]))
            cur_types = [type(x) for x in list(w)[a:b]]
            rng.shuffle(cur_types)
            items = []
            for t in cur_types:
                d = gen_donor(self.s, rng, (t,), safe=self.safe, indent=self.child_indent(owner, m), allow_pool=False)
                if d is None:
                    return None
                items.append({'node': d})
            op['items'] = items
            op['sl'] = [a, b, None]
        elif kind == 'setslice':
            sl = pick_slice(rng, n)
            cnt = len(range(n)[slice(*sl)])
            k = cnt if (rng.random() < 0.6) else rng.choice([0, 1, 2, 3])
            if k > 4:
                k = 2 if sl[2] in (None, 1) else k
                if k > 6:
                    return None
            items = [self.gen_item(owner, m) for _ in range(k)]
            if any(i is None for i in items):
                return None
            op['items'] = items
            op['sl'] = sl
        elif kind == 'delitem':
            op['i'] = pick_index(rng, n)
        elif kind == 'delslice':
            op['sl'] = pick_slice(rng, n)
        elif kind in ('extend', 'iadd'):
            items = [self.gen_item(owner, m) for _ in range(rng.choice([0, 1, 2, 3]))]
            if any(i is None for i in items):
                return None
            op['items'] = items
        elif kind in ('remove', 'discard'):
            if m.kind not in ('filtered_view', 'string_view', 'raw_meta_view', 'meta_view', 'custom_view'):
                if kind == 'discard':
                    return None
            if dom == 'str' or dom == 'custom':
                cur = list(w)
                vals = [v for v in cur if not isinstance(v, models.RawModel)]
                if vals and rng.random() < 0.75:
                    op['val'] = enc(rng.choice(vals))
                else:
                    op['val'] = enc('no-such-value')
            else:
                op['idx_of'] = pick_index(rng, n) if n else 0
        elif kind == 'index_count':
            op['i'] = pick_index(rng, n, 0.7)
        elif kind == 'getitem':
            op['i'] = pick_index(rng, n, 0.4)
            if rng.random() < 0.5:
                op['sl'] = pick_slice(rng, n)
        if kind in ('setslice', 'extend') and rng.random() < 0.3:
            op['as_iter'] = True
        # pool donors may be used once per op
        seen = set()
        for it in op.get('items', []):
            d = it.get('node') if isinstance(it, dict) else None
            if isinstance(d, dict) and 'pool' in d:
                if d['pool'] in seen:
                    return None
                seen.add(d['pool'])
        return op

    def gen_V(self) -> Optional[dict]:
        rng = self.rng
        r = rng.random()
        if r < 0.25:
            return self.gen_seq(kinds={'filtered_view', 'string_view', 'raw_meta_view', 'meta_view', 'custom_view'})
        if r < 0.45:
            return self.gen_map()
        safe = self.safe

        def has_values(n):
            return isinstance(n, models.RawTreeModel) and any(m.kind.startswith('value_') or m.kind == 'data' for m in I.members_of(n).values())
        focus = self.p.get('focus_classes')
        c = None
        if focus and rng.random() < 0.6:
            c = self.pick(lambda n: type(n).__name__ in focus and has_values(n))
        c = c or self.pick(has_values)
        if not c:
            return None
        ref, node = c
        ms = [m for m in I.members_of(node).values() if m.kind.startswith('value_') or m.kind == 'data']
        if safe:
            ms = [m for m in ms if m.name not in UNSAFE_MEMBERS and m.name != 'indent']
        if not ms:
            return None
        m = rng.choice(ms)
        if isinstance(node, models.Transaction) and rng.random() < 0.35:
            # the payee / narration group, including empty strings and removal
            name = rng.choice(['payee', 'narration'])
            return {'op': 'set_val', 't': ref, 'm': name, 'v': rng.choice([None, None, '', 'foo', docgen.string_value(rng)])}
        if isinstance(node, models.CostSpec) and rng.random() < 0.7:
            m = rng.choice([x for x in ms if x.name in ('number_per', 'number_total', 'currency')] or ms)
        v = self.gen_value(node, m)
        if v is NotImplemented:
            return None
        return {'op': 'set_val', 't': ref, 'm': m.name, 'v': v}

    def gen_value(self, node: Any, m: I.Member) -> Any:
        rng = self.rng
        safe = self.safe
        k = m.kind
        cur = None
        try:
            cur = getattr(node, m.name)
        except Exception:
            pass
        none_p = 0.4 if cur is not None else 0.1
        if k == 'value_required':
            t = m.types[0] if m.types else None
            if t is None:
                return NotImplemented
            v = docgen.value_for(rng, t, safe)
            return enc(v) if v is not None else NotImplemented
        if k in ('value_opt_string', 'value_opt_indented_string'):
            if rng.random() < none_p:
                return None
            v = docgen.value_for(rng, m.types[0], safe)
            return enc(v) if v is not None else NotImplemented
        if k == 'value_opt_decimal':
            if rng.random() < none_p:
                return None
            return enc(docgen.signed_number_value(rng))
        if k == 'value_opt_date':
            if rng.random() < none_p:
                return None
            return enc(docgen.date_value(rng))
        if k == 'value_meta':
            return self.gen_meta_value(none_p)
        if k == 'value_bool':
            return rng.random() < 0.5
        if k == 'value_decimal_expr':
            return enc(docgen.signed_number_value(rng))
        if k == 'data':
            return rng.choice(['    ', '  ', '\t', ' ', '        '])
        return NotImplemented

    def gen_meta_value(self, none_p: float = 0.15) -> Any:
        rng = self.rng
        r = rng.randrange(7)
        if rng.random() < none_p:
            return None
        if r == 0:
            return enc(docgen.string_value(rng))
        if r == 1:
            return enc(docgen.date_value(rng))
        if r == 2:
            return enc(docgen.signed_number_value(rng))
        if r == 3:
            return rng.random() < 0.5
        d = gen_donor(self.s, rng, (models.Account, models.Currency, models.Tag, models.Null, models.Amount),
                      safe=self.safe, allow_pool=False)
        return {'node': d} if d else None

    def gen_map(self) -> Optional[dict]:
        rng = self.rng
        ws = self.wrappers(False, {'raw_meta_view', 'meta_view'})
        if not ws:
            return None
        focus = self.p.get('focus_classes')
        if focus:
            fw = [w for w in ws if type(w[1]).__name__ in focus]
            if fw and rng.random() < 0.6:
                ws = fw
        ref, owner, m = rng.choice(ws)
        try:
            w = self.s.resolve(ref)
        except Unresolvable:
            return None
        keys = [it.key for it in w]
        key = rng.choice(keys) if keys and rng.random() < 0.6 else docgen.meta_key_value(rng)
        kind = rng.choice(['set', 'set', 'set', 'del', 'pop', 'pop_default', 'get', 'contains', 'views'])
        op: dict = {'op': 'map', 'k': kind, 't': ref, 'm': m.name, 'key': key}
        if kind == 'set':
            if m.kind == 'raw_meta_view':
                ind = self.child_indent(owner, m)
                d = gen_donor(self.s, rng, (models.MetaItem,), safe=self.safe, indent=ind)
                if d is None:
                    return None
                op['v'] = {'node': d}
            else:
                op['v'] = self.gen_meta_value(0.1)
        return op

    def gen_R(self) -> Optional[dict]:
        c = self.pick(lambda n: True, prefer_recent=False)
        if not c:
            return None
        return {'op': 'read', 't': c[0]}

    def gen_pingpong(self) -> Optional[dict]:
        """Script of four consecutive claim calls handing one comment from its owner to the neighbour on
        its other side and back (issued through the two models alternately)."""
        from .docexec import _claimable_layout
        rng = self.rng
        cands = []
        sur = [(ref, n) for ref, n in self.nodes() if isinstance(n, I.internal.SurroundingCommentsMixin)]
        for ref, x in sur:
            for side, other in (('leading', 'trailing'), ('trailing', 'leading')):
                try:
                    c = getattr(x, f'raw_{side}_comment')
                except Exception:
                    c = None
                if c is None:
                    continue
                for ref2, y in sur:
                    if y is x or y.token_store is not x.token_store:
                        continue
                    try:
                        if getattr(y, f'raw_{other}_comment') is None and _claimable_layout(y, c, other):
                            cands.append((ref, side, ref2, other))
                    except Exception:
                        pass
        if not cands:
            return None
        ref, side, ref2, other = rng.choice(cands)
        script = [{'op': 'claim', 't': ref, 'how': f'unclaim_{side}', 'ignore': False},
                  {'op': 'claim', 't': ref2, 'how': f'claim_{other}', 'ignore': False},
                  {'op': 'claim', 't': ref2, 'how': f'unclaim_{other}', 'ignore': False},
                  {'op': 'claim', 't': ref, 'how': f'claim_{side}', 'ignore': False}]
        if rng.random() < 0.4 and len(ref['p']) >= 2 and isinstance(ref['p'][-1], int):
            # ... or leave it ownerless in between and let the list that holds the first model claim it
            script[3] = {'op': 'claim', 't': {'r': ref['r'], 'p': ref['p'][:-1]}, 'how': 'claim_inter'}
        self.s.script = script[1:]
        return script[0]

    def gen_handover(self) -> Optional[dict]:
        """Script: one comment-interleaving list releases all its standalone comments (after up to two more
        were appended to it as separate tokens), a sibling list claims whatever it can reach, and back."""
        rng = self.rng
        ws = self.wrappers(True, {'raw_repeated_comments'})
        if len(ws) < 2:
            return None
        ref, owner, m = rng.choice(ws)
        same = [w for w in ws if w[1] is owner and w[2].name != m.name]
        near = [w for w in ws if w[1] is not owner and w[1].token_store is owner.token_store]
        pool = same if same and rng.random() < 0.7 else near
        if not pool:
            return None
        ref2 = rng.choice(pool)[0]
        indent = self.child_indent(owner, m)
        script = []
        for _ in range(rng.choice([0, 1, 2, 2])):
            script.append({'op': 'seq', 'k': 'append', 't': ref, 'm': m.name,
                           'items': [{'node': {'tok': 'BlockComment', 'v': docgen.block_comment_value(rng), 'indent': indent}}]})
        script += [{'op': 'claim', 't': ref, 'how': 'unclaim_inter'},
                   {'op': 'claim', 't': ref2, 'how': 'claim_inter'}]
        if rng.random() < 0.6:
            script += [{'op': 'claim', 't': ref2, 'how': 'unclaim_inter'},
                       {'op': 'claim', 't': ref, 'how': 'claim_inter'}]
        self.s.script = script[1:]
        return script[0]

    def gen_C(self) -> Optional[dict]:
        rng = self.rng
        r0 = rng.random()
        if r0 < 0.12:
            op = self.gen_pingpong()
            if op is not None:
                return op
        elif r0 < 0.2:
            op = self.gen_handover()
            if op is not None:
                return op
        lu = getattr(self.s, 'last_unclaimed', None)
        if lu is not None and lu.claimed and lu.store_handle is not None and rng.random() < 0.65:
            # the comment found a new owner: let that owner release it again (ping-pong between neighbours)
            for ref, owner, m in self.wrappers(True, {'raw_repeated_comments'}):
                try:
                    if any(x is lu for x in self.s.resolve(ref)):
                        st = lu.token_store
                        idx = next((i for i, t in enumerate(st) if t is lu), None)
                        if idx is not None:
                            return {'op': 'claim', 't': ref, 'how': 'unclaim_inter', 'subset': [idx]}
                except Exception:
                    pass
            for ref, n in self.nodes():
                if isinstance(n, I.internal.SurroundingCommentsMixin):
                    for side in ('leading', 'trailing'):
                        try:
                            if getattr(n, f'raw_{side}_comment') is lu:
                                return {'op': 'claim', 't': ref, 'how': f'unclaim_{side}', 'ignore': False}
                        except Exception:
                            pass
        if lu is not None and not lu.claimed and lu.store_handle is not None and rng.random() < 0.3:
            # ... or let one of the lists whose model spans the comment claim exactly it
            st = lu.token_store
            ws = []
            for ref, owner, m in self.wrappers(True, {'raw_repeated_comments'}):
                try:
                    if owner.token_store is st and any(t is lu for t in owner.tokens):
                        ws.append(ref)
                except Exception:
                    pass
            if ws and st is not None:
                idx = next((i for i, t in enumerate(st) if t is lu), None)
                if idx is not None:
                    return {'op': 'claim', 't': rng.choice(ws), 'how': rng.choice(['claim_inter', 'claim_inter', 'reclaim_inter']), 'subset': [idx]}
        if lu is not None and not lu.claimed and lu.store_handle is not None and rng.random() < 0.7:
            # hand the comment that was just released to a neighbour that can reach it (claim ping-pong)
            from .docexec import _claimable_layout
            cands = []
            for ref, n in self.nodes():
                if isinstance(n, I.internal.SurroundingCommentsMixin) and n.token_store is lu.token_store:
                    for side in ('leading', 'trailing'):
                        try:
                            if getattr(n, f'raw_{side}_comment') is None and _claimable_layout(n, lu, side):
                                cands.append((ref, side))
                        except Exception:
                            pass
            if cands:
                ref, side = rng.choice(cands)
                return {'op': 'claim', 't': ref, 'how': rng.choice([f'claim_{side}', f'claim_{side}', f'reclaim_{side}']), 'ignore': rng.random() < 0.5}
        r = rng.random()
        if r < 0.45:
            c = self.pick(lambda n: isinstance(n, I.internal.SurroundingCommentsMixin), prefer_recent=False)
            if not c:
                return None
            how = rng.choice(['claim_leading', 'unclaim_leading', 'claim_trailing', 'unclaim_trailing',
                              'reclaim_leading', 'reclaim_trailing'])
            if not how.startswith('claim'):
                # releasing needs something to release: prefer a model that owns such a comment
                side = 'leading' if 'leading' in how else 'trailing'
                c2 = self.pick(lambda n: isinstance(n, I.internal.SurroundingCommentsMixin) and getattr(n, f'raw_{side}_comment', None) is not None,
                               prefer_recent=False)
                c = c2 or c
            return {'op': 'claim', 't': c[0], 'how': how, 'ignore': rng.random() < 0.5}
        if r < 0.8:
            ws = self.wrappers(True, {'raw_repeated_comments'})
            if not ws:
                return None
            ref, owner, m = rng.choice(ws)
            how = rng.choice(['claim_inter', 'unclaim_inter', 'reclaim_inter'])
            op = {'op': 'claim', 't': ref, 'how': how}
            if rng.random() < 0.5:
                # subset addressed by ordinal among BlockComment tokens of the store of the owner
                st = owner.token_store
                comments = [i for i, t in enumerate(st) if isinstance(t, BlockComment)] if st else []
                if comments:
                    op['subset'] = rng.sample(comments, rng.choice([1, 1, 2]) if len(comments) > 1 else 1)
            return op
        c = self.pick(lambda n: isinstance(n, models.RawTreeModel), prefer_recent=False)
        if not c:
            return None
        return {'op': 'claim', 't': c[0], 'how': rng.choice(['auto', 'auto_twice'])}

    def gen_S(self) -> Optional[dict]:
        rng = self.rng
        c = self.pick(lambda n: hasattr(n, 'spacing_before') and not isinstance(n, models.File))
        if not c:
            return None
        if rng.random() < 0.2:
            # near the start of the document: the first store block is the one that has no predecessor to
            # merge into when an edit shrinks it
            head = [(ref, n) for ref, n in self.nodes() if ref['r'] == 'doc' and hasattr(n, 'spacing_before')
                    and not isinstance(n, models.File)][:12]
            if head:
                c = rng.choice(head)
        v = ''.join(rng.choice([' ', ' ', '\t', '\n', '\r\n', '  ']) for _ in range(rng.choice([0, 1, 1, 2, 3])))
        return {'op': 'spacing', 't': c[0], 'side': rng.choice(['before', 'after']), 'v': v,
                'raw': rng.random() < 0.3, 'read_only': rng.random() < 0.3}

    def gen_D(self) -> Optional[dict]:
        if len([m for m in self.s.pool if m is not None]) > 8:
            return None
        rng = self.rng
        if rng.random() < 0.3:
            # duplicate an item next to itself (copy, then insert the copy): two nodes of one store that print
            # alike until a later edit touches one of them
            ws = [(ref, o, m) for ref, o, m in self.wrappers(True) if ref['r'] == 'doc']
            rng.shuffle(ws)
            for ref, owner, m in ws[:8]:
                try:
                    items = list(self.s.resolve(ref))
                except Exception:
                    continue
                idx = [i for i, it in enumerate(items) if isinstance(it, models.RawTreeModel)]
                if not idx:
                    continue
                i = rng.choice(idx)
                k = len(self.s.pool)        # the copy becomes the next pool entry
                self.s.script = [{'op': 'seq', 'k': 'insert', 't': ref, 'm': m.name, 'i': i + 1, 'items': [{'node': {'pool': k}}]}]
                return {'op': 'deepcopy', 't': {'r': 'doc', 'p': ref['p'] + [i]}}
        c = self.pick(lambda n: isinstance(n, models.RawModel) and not isinstance(n, I.SPECIAL_EXPR))
        if not c:
            return None
        return {'op': 'deepcopy', 't': c[0]}

    def gen_K(self) -> Optional[dict]:
        rng = self.rng
        if len([m for m in self.s.pool if m is not None]) > 8:
            return None
        if rng.random() < 0.4:
            # the constructor route with every argument combination, any entry type
            r = gen_from_value(rng, rng.choice(FROM_VALUE_CLASSES), indent=rng.choice(['    ', '  ', '\t']))
            if r is not None:
                return {'op': 'construct', 'v': r}
        t = rng.choice([models.Posting, models.MetaItem, models.Transaction, models.Open, models.Close, models.Balance,
                        models.Note, models.Custom, models.Amount, models.CostSpec, models.Tag, models.Link,
                        models.Currency, models.EscapedString, BlockComment, models.NumberExpr, models.Price, models.Event])
        d = gen_donor(self.s, rng, (t,), safe=self.safe, indent='    ', allow_pool=False)
        if d is None:
            return None
        return {'op': 'construct', 'v': d}

    def gen_H(self) -> Optional[dict]:
        ws = self.wrappers(False)
        if not ws or len(self.s.handles) > 24:
            return None
        ref, owner, m = self.rng.choice(ws)
        return {'op': 'handle', 't': {'r': ref['r'], 'p': ref['p'][:-1]}, 'm': m.name}

    def gen_A(self) -> Optional[dict]:
        """Arithmetic on a NumberExpr that lives in the document (in place) or plain (result pooled)."""
        rng = self.rng
        c = self.pick(lambda n: isinstance(n, models.NumberExpr))
        if not c:
            return None
        r = rng.random()
        if r < 0.4:
            right: Any = {'int': rng.choice([1, 2, 3, 10, -4])}
        elif r < 0.7:
            right = {'dec': rng.choice(['0.5', '1.25', '-2', '100'])}
        else:
            right = {'expr': docgen.expr_text(rng)}
        return {'op': 'arith', 't': c[0], 'o': rng.choice(['+', '-', '*', '/']), 'r': right,
                'mode': rng.choice(['inplace', 'inplace', 'plain', 'reflected', 'neg'])}

    def gen_Z(self) -> Optional[dict]:
        """== between a node that was deleted from the document and a live one (C20 profile)."""
        zs = getattr(self.s, 'zombies', [])
        if not zs:
            return None
        c = self.pick(lambda n: isinstance(n, models.RawTreeModel))
        if not c:
            return None
        return {'op': 'eq_zombie', 'z': self.rng.randrange(len(zs)), 't': c[0]}

    def gen_X(self) -> Optional[dict]:
        """Mutation through a retained (possibly stale) handle."""
        hs = [k for k, h in enumerate(self.s.handles) if h is not None]
        if not hs:
            return self.gen_H()
        k = self.rng.choice(hs)
        h = self.s.handles[k]
        owner, mname = h['owner'], h['member']
        m = I.members_of(owner).get(mname)
        if m is None:
            return None
        # reuse the sequence generator against the handle
        saved = self.wrappers
        ref = {'r': ['handle', k], 'p': []}
        self.wrappers = lambda raw_only=False, kinds=None: [(ref, owner, m)]   # type: ignore
        try:
            if m.kind in ('raw_meta_view', 'meta_view') and self.rng.random() < 0.4:
                return self.gen_map()
            return self.gen_seq()
        finally:
            self.wrappers = saved   # type: ignore
