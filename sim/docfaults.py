"""Refusal fault catalogue (C19) and the independent comment-attribution
reference R_attr (C14)."""
from __future__ import annotations

import random
from typing import Any, Optional

from . import core
from . import docgen
from . import introspect as I
from . import walker as W
from . import docops
from .docbase import Session, Unresolvable

models = I.models
Violation = core.Violation
BlockComment = models.BlockComment
Surround = I.internal.SurroundingCommentsMixin

EXEC: dict = {}


# ==========================================================================
# F: enumeration of the refusals applicable to the current state

def _strictly_inside(node: Any) -> bool:
    st = node.token_store
    if st is None:
        return False
    try:
        return not (node.first_token is st.get_first() and node.last_token is st.get_last())
    except Exception:
        return False


def gen_emptied_store_script(g: docops.Gen) -> Optional[dict]:
    """Three calls: delete a child of a detached (pool) node, move that node into the document - which
    empties the store the deleted child still names - and offer the deleted child to another list."""
    rng = g.rng
    sess = g.s
    ws = g.wrappers(True)
    if not ws:
        return None
    cands = []
    for k, P in enumerate(sess.pool):
        if P is None or not isinstance(P, models.RawTreeModel) or isinstance(P, I.SPECIAL_EXPR) or not docops.self_contained(P):
            continue
        for m in I.members_of(P).values():
            if m.kind not in ('raw_repeated', 'raw_repeated_comments'):
                continue
            try:
                items = list(getattr(P, m.name))
            except Exception:
                continue
            for i, it in enumerate(items):
                if isinstance(it, models.RawTreeModel):
                    cands.append((k, P, m, i, it))
    rng.shuffle(cands)
    for k, P, m, i, it in cands[:6]:
        homes = [(ref, o, mm) for ref, o, mm in ws if mm.types and isinstance(P, mm.types)
                 and docops._indent_fits(P, g.child_indent(o, mm), g.safe)]
        takers = [(ref, o, mm) for ref, o, mm in ws if mm.types and isinstance(it, mm.types)]
        if not homes or not takers:
            continue
        href, ho, hm = rng.choice(homes)
        tref, to, tm = rng.choice(takers)
        fresh = g.gen_item(to, tm)
        if fresh is None or (isinstance(fresh.get('node'), dict) and 'pool' in fresh['node']):
            continue
        try:
            hn, tn = len(sess.resolve(href)), len(sess.resolve(tref))
        except Unresolvable:
            continue
        zi = min(len(getattr(sess, 'zombies', [])) + 1, 4) - 1
        last = {'op': 'seq', 'k': 'extend', 't': tref, 'm': tm.name, 'items': [fresh, {'node': {'zombie': zi}}],
                'fault': 'F1z_deleted_node'}
        if tn >= 2 and rng.random() < 0.6:
            last = {'op': 'seq', 'k': 'setslice', 't': tref, 'm': tm.name, 'sl': [0, 2, None],
                    'items': [fresh, {'node': {'zombie': zi}}], 'fault': 'F1z_deleted_node'}
        sess.script = [
            {'op': 'seq', 'k': 'insert', 't': href, 'm': hm.name, 'i': docops.pick_index(rng, hn, 0.7), 'items': [{'node': {'pool': k}}]},
            last]
        return {'op': 'seq', 'k': 'delitem', 't': {'r': ['pool', k], 'p': [m.name]}, 'm': m.name, 'i': i}
    return None


def gen_F(g: docops.Gen) -> Optional[dict]:
    rng = g.rng
    sess = g.s
    if rng.random() < 0.12:
        op = gen_emptied_store_script(g)
        if op is not None:
            return op
    nodes = g.nodes()
    attached = [(ref, n) for ref, n in nodes if not isinstance(n, I.SPECIAL_EXPR) and _strictly_inside(n)]
    by_type: dict[type, list] = {}
    for ref, n in attached:
        by_type.setdefault(type(n), []).append((ref, n))
    faults: list[dict] = []

    def attached_of(types: tuple, exclude: Any = None) -> Optional[dict]:
        cands = [c for t in types for c in by_type.get(t, []) if c[1] is not exclude]
        if not cands:
            return None
        ref, n = rng.choice(cands)
        return {'attached': ref}

    # F1 on raw setters
    targets = [(ref, n) for ref, n in nodes if isinstance(n, models.RawTreeModel) and not isinstance(n, I.SPECIAL_EXPR)]
    rng.shuffle(targets)
    for ref, node in targets[:6]:
        ms = [m for m in I.members_of(node).values() if m.kind in ('raw_required', 'raw_optional', 'unordered')
              or (type(node).__name__, m.name) in docops.CUSTOM_RAW_TYPES]
        if not ms:
            continue
        m = rng.choice(ms)
        types = m.types or docops.CUSTOM_RAW_TYPES.get((type(node).__name__, m.name), ())
        cur = getattr(node, m.name)
        d = attached_of(types, exclude=cur)
        if d is None:
            continue
        faults.append({'op': 'set_raw', 't': ref, 'm': m.name, 'v': d, 'fault': 'F1_attached_donor', 'must_raise': 'F1'})
    # F1/F2/F4 on sequences
    ws = g.wrappers(False)
    rng.shuffle(ws)
    for ref, owner, m in ws[:6]:
        try:
            w = sess.resolve(ref)
        except Unresolvable:
            continue
        n = len(w)
        dom, types = g.item_domain(owner, m)
        if dom == 'node':
            d = attached_of(types)
            if d is not None:
                kind = rng.choice(['append', 'insert', 'setitem', 'setslice', 'extend'])
                cur_items = list(w)
                tgt = sess.resolve(d['attached'])
                op = {'op': 'seq', 'k': kind, 't': ref, 'm': m.name, 'fault': 'F1_attached_donor', 'must_raise': 'F1'}
                fresh = []
                for _ in range(rng.choice([0, 1, 2])):
                    it = g.gen_item(owner, m)
                    if it is not None and not (isinstance(it.get('node'), dict) and 'pool' in it['node']):
                        fresh.append(it)
                batch = list(fresh)
                batch.insert(rng.randrange(len(batch) + 1), {'node': d})
                ok = True
                if kind == 'append':
                    op['items'] = [{'node': d}]
                elif kind == 'insert':
                    op['items'] = [{'node': d}]
                    op['i'] = docops.pick_index(rng, n, 0.7)
                elif kind == 'setitem':
                    if not n:
                        ok = False
                    else:
                        i = rng.randrange(n)
                        if cur_items[i] is tgt:
                            ok = False
                        op['items'] = [{'node': d}]
                        op['i'] = i
                elif kind == 'setslice':
                    a = rng.randrange(n + 1)
                    b = min(n, a + rng.choice([0, 1, 2]))
                    is_view = m.kind not in ('raw_repeated', 'raw_repeated_comments')
                    if is_view:
                        # keep the size: otherwise the refusal would be F4, not F1
                        while len(batch) < b - a:
                            it = g.gen_item(owner, m)
                            if it is None or (isinstance(it.get('node'), dict) and 'pool' in it['node']):
                                ok = False
                                break
                            batch.append(it)
                        batch = batch[:max(b - a, 1)]
                        if not any(isinstance(x.get('node'), dict) and 'attached' in x['node'] for x in batch) or len(batch) != b - a:
                            ok = False
                    if any(x is tgt for x in cur_items[a:b]):
                        ok = False   # re-inserting an element of the replaced range itself is legal for a list
                    op['items'] = batch
                    op['sl'] = [a, b, None]
                else:
                    op['items'] = batch
                if ok:
                    if kind in ('setslice', 'extend') and rng.random() < 0.4:
                        op['as_iter'] = True
                    faults.append(op)
        if dom == 'custom':
            # Custom.values takes plain values and nodes alike; an attached node (token or tree) anywhere
            # in a batch must be refused before the first position is written
            d = attached_of((models.Account, models.Amount, models.EscapedString, models.Date, models.Bool))
            if d is not None:
                tgt = sess.resolve(d['attached'])
                inside_owner = any(x is tgt for x in list(getattr(owner, 'raw_values', [])))
                lead = []
                for _ in range(rng.choice([0, 1, 1, 2])):
                    it = g.gen_item(owner, m)
                    if it is not None and 'val' in it:
                        lead.append(it)
                batch = lead + [{'node': d}]
                if rng.random() < 0.3:
                    it = g.gen_item(owner, m)
                    if it is not None and 'val' in it:
                        batch.append(it)
                kind = rng.choice(['setslice', 'setslice', 'setitem', 'append', 'insert', 'extend'])
                op = {'op': 'seq', 'k': kind, 't': ref, 'm': m.name, 'fault': 'F1_attached_donor', 'must_raise': 'F1'}
                ok = not inside_owner
                if kind == 'setslice':
                    if n < len(batch):
                        ok = False
                    else:
                        a = rng.randrange(n - len(batch) + 1)
                        op['sl'] = [a, a + len(batch), None]
                        op['items'] = batch
                elif kind == 'setitem':
                    if not n:
                        ok = False
                    else:
                        op['i'] = rng.randrange(n)
                        op['items'] = [{'node': d}]
                elif kind == 'insert':
                    op['i'] = docops.pick_index(rng, n, 0.7)
                    op['items'] = [{'node': d}]
                elif kind == 'append':
                    op['items'] = [{'node': d}]
                else:
                    op['items'] = batch
                if ok:
                    faults.append(op)
        # F2
        if rng.random() < 0.5:
            bad = rng.choice([n, n + 1, -n - 1])
            k = rng.choice(['pop', 'delitem', 'setitem'])
            op = {'op': 'seq', 'k': k, 't': ref, 'm': m.name, 'i': bad, 'fault': 'F2_bad_index'}
            if k == 'setitem':
                it = g.gen_item(owner, m)
                if it is None or (isinstance(it.get('node'), dict) and 'pool' in it['node']):
                    continue
                op['items'] = [it]
            faults.append(op)
        # F4
        if n >= 2 and rng.random() < 0.5:
            it = g.gen_item(owner, m)
            if it is not None and not (isinstance(it.get('node'), dict) and 'pool' in it['node']):
                faults.append({'op': 'seq', 'k': 'setslice', 't': ref, 'm': m.name, 'sl': [None, None, 2], 'items': [it] * 0 + [it] if n > 2 else [],
                               'fault': 'F4_size_mismatch'})
    # F1z: a node that was deleted from a document earlier (its tokens live nowhere, its tree still names the
    # old store); detach() refuses it, so every route must refuse it before modifying anything
    zs = getattr(sess, 'zombies', [])
    for zi, z in enumerate(zs):
        try:
            if z.first_token.store_handle is not None:
                continue
        except Exception:
            continue
        for ref, owner, m in ws[:8]:
            dom, types = g.item_domain(owner, m)
            if dom != 'node' or not isinstance(z, types):
                continue
            try:
                n = len(sess.resolve(ref))
            except Unresolvable:
                continue
            fresh = g.gen_item(owner, m)
            if fresh is None or (isinstance(fresh.get('node'), dict) and 'pool' in fresh['node']):
                continue
            is_view = m.kind not in ('raw_repeated', 'raw_repeated_comments')
            if n >= 2:
                faults.append({'op': 'seq', 'k': 'setslice', 't': ref, 'm': m.name, 'sl': [0, 2, None],
                               'items': [fresh, {'node': {'zombie': zi}}], 'fault': 'F1z_deleted_node'})
            elif n >= 1 and not is_view:
                faults.append({'op': 'seq', 'k': 'setslice', 't': ref, 'm': m.name, 'sl': [0, 1, None],
                               'items': [fresh, {'node': {'zombie': zi}}], 'fault': 'F1z_deleted_node'})
            faults.append({'op': 'seq', 'k': 'extend', 't': ref, 'm': m.name, 'items': [fresh, {'node': {'zombie': zi}}], 'fault': 'F1z_deleted_node'}
                          if not is_view else {'op': 'seq', 'k': 'append', 't': ref, 'm': m.name, 'items': [{'node': {'zombie': zi}}], 'fault': 'F1z_deleted_node'})
            break
        if isinstance(z, models.NumberExpr):
            for ref, node in [(r, n) for r, n in nodes if isinstance(n, models.CostSpec)][:2]:
                faults.append({'op': 'set_raw', 't': ref, 'm': rng.choice(['raw_number_per', 'raw_number_total']),
                               'v': {'zombie': zi}, 'fault': 'F1z_deleted_node'})
    # F3 + F1 on mappings
    ms = g.wrappers(False, {'raw_meta_view', 'meta_view'})
    rng.shuffle(ms)
    for ref, owner, m in ms[:3]:
        faults.append({'op': 'map', 'k': rng.choice(['del', 'pop', 'get']), 't': ref, 'm': m.name, 'key': 'absentkey', 'fault': 'F3_missing_key'})
        if m.kind == 'raw_meta_view':
            d = attached_of((models.MetaItem,))
            if d is not None:
                w = sess.resolve(ref)
                keys = [it.key for it in w]
                tgt = sess.resolve(d['attached'])
                key = rng.choice(keys) if keys and rng.random() < 0.5 else 'newkey'
                first = next((it for it in w if it.key == key), None)
                if first is not tgt:
                    faults.append({'op': 'map', 'k': 'set', 't': ref, 'm': m.name, 'key': key, 'v': {'node': d},
                                   'fault': 'F1_attached_donor', 'must_raise': 'F1'})
        else:
            d = attached_of((models.Account, models.Currency, models.Tag, models.Amount))
            if d is not None:
                w = sess.resolve(ref)
                keys = [it.key for it in w]
                key = rng.choice(keys) if keys and rng.random() < 0.5 else 'newkey'
                tgt = sess.resolve(d['attached'])
                first = next((it for it in w if it.key == key), None)
                if first is None or first.raw_value is not tgt:
                    faults.append({'op': 'map', 'k': 'set', 't': ref, 'm': m.name, 'key': key, 'v': {'node': d},
                                   'fault': 'F1_attached_donor', 'must_raise': 'F1'})
    # F1 through value-level meta value
    mis = [(ref, n) for ref, n in nodes if isinstance(n, models.MetaItem)]
    if mis:
        ref, node = rng.choice(mis)
        d = attached_of((models.Account, models.Currency, models.Tag, models.Amount), exclude=node.raw_value)
        if d is not None:
            faults.append({'op': 'set_val', 't': ref, 'm': 'value', 'v': {'node': d}, 'fault': 'F1_attached_donor', 'must_raise': 'F1'})
    # F5 comments
    cw = g.wrappers(True, {'raw_repeated_comments'})
    rng.shuffle(cw)
    for ref, owner, m in cw[:2]:
        faults.append({'op': 'claim', 't': ref, 'how': rng.choice(['claim_inter', 'unclaim_inter']),
                       'foreign': {'tok': 'BlockComment', 'v': 'foreign', 'indent': ''}, 'fault': 'F5_comment_refusal'})
        st = owner.token_store
        if st is not None:
            # partly findable list: one comment the wrapper can reach plus one it cannot
            try:
                span = set(id(t) for t in owner.tokens)
            except Exception:
                span = set()
            reach_un = [i for i, t in enumerate(st) if isinstance(t, BlockComment) and not t.claimed and id(t) in span]
            items_c = [i for i, t in enumerate(st) if isinstance(t, BlockComment) and any(t is x for x in sess.resolve(ref))]
            if reach_un:
                faults.append({'op': 'claim', 't': ref, 'how': 'claim_inter', 'subset': [rng.choice(reach_un)],
                               'foreign': {'tok': 'BlockComment', 'v': 'foreign', 'indent': ''}, 'fault': 'F5_comment_refusal'})
            if items_c:
                faults.append({'op': 'claim', 't': ref, 'how': 'unclaim_inter', 'subset': [rng.choice(items_c)],
                               'foreign': {'tok': 'BlockComment', 'v': 'foreign', 'indent': ''}, 'fault': 'F5_comment_refusal'})
            claimed = [i for i, t in enumerate(st) if isinstance(t, BlockComment) and t.claimed]
            if claimed:
                faults.append({'op': 'claim', 't': ref, 'how': 'claim_inter', 'subset': [rng.choice(claimed)], 'fault': 'F5_comment_refusal'})
    sm = [(ref, n) for ref, n in nodes if isinstance(n, Surround)]
    if sm:
        ref, node = rng.choice(sm)
        faults.append({'op': 'claim', 't': ref, 'how': rng.choice(['claim_leading', 'claim_trailing']), 'ignore': False, 'fault': 'F5_comment_refusal'})
    # F6 cost combinations
    costs = [(ref, n) for ref, n in nodes if isinstance(n, models.CostSpec)]
    for ref, node in costs[:2]:
        try:
            per, tot, cur = node.number_per, node.number_total, node.currency
        except Exception:
            continue
        if cur is None and per is not None and tot is None:
            faults.append({'op': 'set_val', 't': ref, 'm': 'number_total', 'v': {'dec': '5'}, 'fault': 'F6_cost_rejection'})
        elif cur is None and tot is not None and per is None:
            faults.append({'op': 'set_val', 't': ref, 'm': 'number_per', 'v': {'dec': '5'}, 'fault': 'F6_cost_rejection'})
        elif cur is not None and per is not None and tot is not None:
            faults.append({'op': 'set_val', 't': ref, 'm': 'currency', 'v': None, 'fault': 'F6_cost_rejection'})
    # F7 unrepresentable raw text
    toks = [(ref, n) for ref, n in nodes if isinstance(n, (models.Date, models.Number, models.Bool, BlockComment))]
    rng.shuffle(toks)
    for ref, tok in toks[:3]:
        faults.append({'op': 'tok_raw', 't': ref, 'v': rng.choice(['garbage', 'x y', '12-ab', '']), 'fault': 'F7_bad_raw_text'})
    # F1 wrapper assignment: a wrapper that is attached elsewhere
    rw = g.wrappers(True)
    if len(rw) >= 2:
        a, b = rng.sample(rw, 2)
        if a[2].name == b[2].name and a[2].types == b[2].types and a[1] is not b[1] \
                and _strictly_inside(getattr(b[1], b[2].slot)):
            faults.append({'op': 'set_wrapper', 't': {'r': a[0]['r'], 'p': a[0]['p'][:-1]}, 'm': a[2].name,
                           'v': {'attached': b[0]}, 'fault': 'F1_attached_donor', 'must_raise': 'F1'})
    if not faults:
        return None
    rng.shuffle(faults)
    return {'op': 'faults', 'list': faults[:10]}


# ==========================================================================
# wrapper assignment (ordinary op and F1 fault)

def exec_set_wrapper(sess: Session, op: dict, step: int) -> docops.Effect:
    owner = sess.resolve(op['t'])
    m = I.members_of(owner).get(op['m'])
    if m is None or m.kind not in ('raw_repeated', 'raw_repeated_comments'):
        raise Unresolvable('not a repeated member')
    eff = docops.Effect('set_wrapper', 'N', f'{type(owner).__name__}.{m.name}')
    eff.touched = {sess.key_of_node(owner)}
    donor = docops.make_donor(sess, op['v'])
    from . import docexec
    before = docexec._before(owner)
    sp_b = docexec._span_before(before, owner)
    old = getattr(owner, m.slot)
    old_ids = {id(t) for t in old.tokens}
    sibs = docops.sibling_snapshot(owner, {m.slot})
    try:
        # (bookkeeping for known finding KF6: the replaced list's placeholder sits behind the newline that
        # separates its first item from what precedes the field - the state a claim "from below" leaves)
        st0 = old.token_store
        prev = st0.get_prev(old.first_token)
        hops = 0
        while prev is not None and not prev.raw_text and hops < 64:
            prev = st0.get_prev(prev)
            hops += 1
        if isinstance(prev, models.Newline) and list(old.items):
            sess.wrapper_assigned_behind_newline = True
    except Exception:
        pass
    try:
        setattr(owner, m.name, donor)
    except Exception as e:
        eff.exc = e
        eff.outcome = 'raised'
        if op.get('fault'):
            eff.fault = op['fault']
            return eff
        eff.v('C03', 'unexpected_exception', step, f'{type(owner).__name__}.{m.name} = wrapper raised {type(e).__name__}: {e}')
        return eff
    after = docops.store_tokens(owner)
    sp_a = docops.span_in(docexec._index(after), owner)
    new_ids = docops.ids_of(getattr(owner, m.slot))
    docops.check_child_edit(eff, step, 'C03', before, after, sp_b, sp_a, old_ids, new_ids, sibs,
                            f'{type(owner).__name__}.{m.name} = copied wrapper')
    if getattr(owner, m.name) is not donor:
        eff.v('C03', 'readback', step, f'{type(owner).__name__}.{m.name} does not return the wrapper just assigned')
    eff.wrapper_replaced = (owner, m.name)
    for it in donor:
        sess.recent.append(it)
    return eff


EXEC['set_wrapper'] = exec_set_wrapper


# ==========================================================================
# R_attr: documented attribution rules, evaluated on line geometry

def _line_starts(text: str) -> list[int]:
    starts = [0]
    for i, c in enumerate(text):
        if c == '\n':
            starts.append(i + 1)
    return starts


def check_attribution(root: Any, text: str) -> list[Violation]:
    """Default attribution of a freshly parsed File against the documented
    rules: leading of the model directly below (same indentation class, no blank
    line) else trailing of the model directly above, else standalone."""
    import bisect
    toks = list(root.token_store)
    starts = _line_starts(text)
    off = {}
    pos = 0
    for t in toks:
        off[id(t)] = pos
        pos += len(t.raw_text)

    def line_of(offset: int) -> int:
        return bisect.bisect_right(starts, offset) - 1

    # candidate owners
    first_line: dict[int, list] = {}
    last_line: dict[int, list] = {}
    owner_kind: dict[int, tuple] = {}
    for path, node in W.iter_nodes(root):
        if not isinstance(node, Surround):
            continue
        kids = W.children(node)
        content = [c for name, kind, c in kids if c is not None and name not in ('_leading_comment', '_trailing_comment')]
        ft = next((t for c in content for t in W.leaves(c) if t.raw_text), None)
        lts = [t for c in content for t in W.leaves(c) if t.raw_text]
        if ft is None:
            continue
        lt = lts[-1]
        indented = bool(getattr(node, 'indent', '')) if isinstance(getattr(node, 'indent', None), str) else False
        fl = line_of(off[id(ft)])
        ll = line_of(off[id(lt)] + max(len(lt.raw_text) - 1, 0))
        first_line.setdefault(fl, []).append((node, indented))
        last_line.setdefault(ll, []).append((node, indented))
        for name, kind, c in kids:
            if isinstance(c, BlockComment) and name in ('_leading_comment', '_trailing_comment'):
                owner_kind[id(c)] = (name, node)
    rep_desc: dict[int, str] = {}
    for path, node in W.iter_nodes(root):
        if isinstance(node, models.RawTokenModel):
            continue
        for name, kind, c in W.children(node):
            if isinstance(c, I.Repeated):
                n_models = sum(1 for it in c.items if not isinstance(it, BlockComment))
                rep_desc[id(c)] = f'{type(node).__name__}.{name} ({n_models} non-comment item(s))'
                for it in c.items:
                    if isinstance(it, BlockComment):
                        owner_kind[id(it)] = ('item', c)
    V: list[Violation] = []
    for t in toks:
        if not isinstance(t, BlockComment):
            continue
        l1 = line_of(off[id(t)])
        l2 = line_of(off[id(t)] + len(t.raw_text) - 1)
        k = bool(t.indent)
        below = [n for n, ind in first_line.get(l2 + 1, []) if ind == k]
        above = [n for n, ind in last_line.get(l1 - 1, []) if ind == k]
        got = owner_kind.get(id(t))
        if got is None:
            continue   # unowned: reported by parse_leaves_unowned
        if below:
            ok = got[0] == '_leading_comment' and got[1] is below[0]
            exp = f'leading comment of the {type(below[0]).__name__} on the next line'
        elif above:
            ok = got[0] == '_trailing_comment' and any(got[1] is n for n in above)
            exp = f'trailing comment of the {type(above[-1]).__name__} ending on the previous line'
        else:
            ok = got[0] == 'item'
            exp = 'standalone entry of the enclosing repeated field'
        if not ok:
            who = rep_desc.get(id(got[1]), type(got[1]).__name__)
            V.append(Violation('C14', 'attribution_rule', -1,
                               f'comment {t.raw_text!r} (lines {l1}-{l2}, {"indented" if k else "unindented"}) is {got[0].strip("_")} of {who}; documented rules give: {exp}'))
    return V
