"""Seeded, grammar-directed generators: whole documents, single-model snippets
and in-domain values per token class.  Independent of the repo's parser; a
generated text that the parser rejects is discarded and counted by callers,
never an alarm.  The generator is not an oracle.
"""
from __future__ import annotations

import datetime
import decimal
import random
from typing import Any, Optional

from . import core

core.use_repo()
from autobean_refactor import models  # noqa: E402

D = decimal.Decimal

ACCOUNT_ROOTS = ['Assets', 'Liabilities', 'Expenses', 'Income', 'Equity', 'Ärger']
ACCOUNT_PARTS = ['Foo', 'Bar', 'Cash', 'Bank-1', 'Café', '2020', 'X', 'Checking', 'Food', 'Ünï']
CURRENCIES = ['USD', 'EUR', 'GBP', 'JPY', 'HOOL', 'BTC', 'VTSAX', "A'B", 'X.Y', 'AB-CD', 'A1', 'US_D', '/ES', '/ABC1']
TAG_CHARS = 'abcXYZ019-_/.'
KEYS = ['aa', 'foo', 'bar-baz', 'k_1', 'isin', 'note2', 'fooBar']
WORDS = ['foo', 'bar', 'lunch', 'Ünï', 'a b', 'x;y', '', 'q"uo"te', 'back\\slash', 'tab\there', '#notatag', '2020-01-01', 'two\nlines']
FLAGS = list('*!&#?%PSTCURM')


def date_value(rng: random.Random) -> datetime.date:
    y = rng.choice([2000, 2020, 1999, 2024, 1000, 9999, rng.randrange(1000, 9999)])
    return datetime.date(y, rng.randrange(1, 13), rng.randrange(1, 29))


def date_text(rng: random.Random) -> str:
    d = date_value(rng)
    sep = rng.choice(['-', '-', '-', '/'])
    if rng.random() < 0.1:
        return f'{d.year}{sep}{d.month}{sep}{d.day}'
    return f'{d.year:04d}{sep}{d.month:02d}{sep}{d.day:02d}'


def account(rng: random.Random) -> str:
    return ':'.join([rng.choice(ACCOUNT_ROOTS)] + [rng.choice(ACCOUNT_PARTS) for _ in range(rng.choice([1, 1, 2, 3]))])


def currency(rng: random.Random) -> str:
    return rng.choice(CURRENCIES)


def taglink_value(rng: random.Random) -> str:
    return ''.join(rng.choice(TAG_CHARS) for _ in range(rng.choice([1, 2, 3, 6])))


def meta_key_value(rng: random.Random) -> str:
    return rng.choice(KEYS)


def string_value(rng: random.Random, multiline: bool = True) -> str:
    w = rng.choice(WORDS)
    if rng.random() < 0.2:
        w = w + ' ' + rng.choice(WORDS)
    if not multiline:
        w = w.replace('\n', ' ')
    return w


def escape(s: str) -> str:
    return s.replace('\\', '\\\\').replace('"', '\\"')


def string_text(rng: random.Random, multiline: bool = True) -> str:
    s = string_value(rng, multiline)
    if rng.random() < 0.1:
        return '"' + escape(s).replace('\t', '\\t') + '"'
    return '"' + escape(s) + '"'


def number_value(rng: random.Random) -> decimal.Decimal:
    return D(rng.choice(['0', '1', '2', '10.00', '1234.56', '0.5', '100', '3.14159', '42', '7.', '1000000', '0.00']))


def signed_number_value(rng: random.Random) -> decimal.Decimal:
    v = number_value(rng)
    return -v if rng.random() < 0.3 else v


def number_text(rng: random.Random) -> str:
    return rng.choice(['0', '1', '2', '10.00', '1,234.56', '0.5', '100', '3.14159', '42', '7.', '1,000,000', '12,345'])


def expr_text(rng: random.Random, depth: int = 0) -> str:
    r = rng.random()
    if depth >= 3 or r < 0.45:
        return number_text(rng)
    if r < 0.55:
        return rng.choice(['-', '+', '- ']) + expr_atom(rng, depth + 1)
    if r < 0.65:
        return '(' + rng.choice(['', ' ']) + expr_text(rng, depth + 1) + rng.choice(['', ' ']) + ')'
    sp = rng.choice(['', ' ', '  '])
    op = rng.choice(['+', '-', '*', '/'])
    left = expr_text(rng, depth + 1)
    right = expr_text(rng, depth + 1) if op in '+-' else expr_atom(rng, depth + 1)
    if op in '*/' and any(c in left for c in '+-') and not left.startswith('('):
        left = '(' + left + ')'
    if op == '/':
        right = rng.choice(['2', '4', '5', '(1 + 1)', '0.5', '3', '7', '3'])
    return f'{left}{sp}{op}{sp}{right}'


def expr_atom(rng: random.Random, depth: int) -> str:
    if rng.random() < 0.7 or depth >= 3:
        return number_text(rng)
    return '(' + expr_text(rng, depth + 1) + ')'


def inline_comment_value(rng: random.Random) -> str:
    return rng.choice(['c', 'comment', 'x ; y', 'Ünï', '"q"', 'a  b', ''])


def block_comment_value(rng: random.Random) -> str:
    lines = [rng.choice(['c', 'comment here', '', 'x;y', 'Ünï', '  indented', '\tt']) for _ in range(rng.choice([1, 1, 2, 3]))]
    return '\n'.join(lines)


def bool_text(rng):
    return rng.choice(['TRUE', 'FALSE'])


def amount_text(rng):
    return expr_text(rng) + rng.choice([' ', '  ', '']) + currency_no_slash(rng)


def currency_no_slash(rng):
    c = currency(rng)
    return c if not c.startswith('/') else 'USD'


def meta_value_text(rng: random.Random) -> str:
    k = rng.randrange(10)
    if k == 0:
        return string_text(rng)
    if k == 1:
        return account(rng)
    if k == 2:
        return date_text(rng)
    if k == 3:
        return currency_no_slash(rng)
    if k == 4:
        return '#' + taglink_value(rng)
    if k == 5:
        return bool_text(rng)
    if k == 6:
        return 'NULL'
    if k == 7:
        return expr_text(rng)
    if k == 8:
        return amount_text(rng)
    return ''


class Layout:
    def __init__(self, rng: random.Random, eol: Optional[str] = None):
        self.eol_mode = eol or rng.choice(['lf', 'lf', 'lf', 'crlf', 'mixed'])
        self.comment_density = rng.choice([0.0, 0.1, 0.3, 0.6])
        self.indent = rng.choice(['    ', '  ', '\t', ' ', '    ', '      '])
        self.uniform_indent = rng.random() < 0.7
        self.final_newline = rng.random() < 0.7
        self.blank_density = rng.choice([0.0, 0.3, 0.6])
        # probability that a separator the grammar does not need ('!Assets:Cash', 'USD{', '}@', '2# 3 USD',
        # '*"payee"', '"a"#tag') is left out
        self.tight = rng.choice([0.0, 0.0, 0.0, 0.25, 0.6])

    def nl(self, rng: random.Random) -> str:
        if self.eol_mode == 'lf':
            return '\n'
        if self.eol_mode == 'crlf':
            return '\r\n'
        return rng.choice(['\n', '\r\n', '\n', '\r\r\n'])

    def ind(self, rng: random.Random, deeper: bool = False) -> str:
        base = self.indent if self.uniform_indent else rng.choice(['    ', '  ', '\t', ' ', '   '])
        return base + (base if deeper else '')


def sp(rng: random.Random) -> str:
    return rng.choice([' ', ' ', ' ', '  ', '\t', '   '])


def tsp(rng: random.Random, tight: float) -> str:
    """Separator at a site where the lexer needs none."""
    if tight and rng.random() < tight:
        return ''
    return sp(rng)


def inline_comment(rng: random.Random, lay: Layout) -> str:
    if rng.random() < lay.comment_density:
        return rng.choice([' ', '  ', '']) + ';' + rng.choice(['', ' ']) + inline_comment_value(rng).replace('\n', ' ') + rng.choice(['', '', ' '])
    return rng.choice(['', '', '', ' '])


def comment_block(rng: random.Random, lay: Layout, indent: str) -> list[str]:
    n = rng.choice([1, 1, 2, 3])

    def ind():
        if not indent or lay.uniform_indent or rng.random() < 0.5:
            return indent
        return rng.choice([' ', '  ', '\t', indent + ' ', '      '])     # same indentation class, different width
    return [ind() + ';' + rng.choice(['', ' ', '; ']) + rng.choice(['c', 'note', 'Ünï', '', 'x  y']) for _ in range(n)]


def meta_lines(rng: random.Random, lay: Layout, deeper: bool = False, allow_comments: bool = True) -> list[str]:
    out = []
    for _ in range(rng.choice([0, 0, 1, 2, 3])):
        if allow_comments and rng.random() < lay.comment_density:
            out.extend(comment_block(rng, lay, lay.ind(rng, deeper)))
        v = meta_value_text(rng)
        out.append(lay.ind(rng, deeper) + rng.choice(KEYS) + ':' + (sp(rng) + v if v else '') + inline_comment(rng, lay))
    if out and allow_comments and rng.random() < lay.comment_density:
        out.extend(comment_block(rng, lay, lay.ind(rng, deeper)))
    return out


def cost_text(rng: random.Random, tight: float = 0.0) -> str:
    comps = []
    k = rng.randrange(9)
    cur = currency_no_slash(rng)
    if k == 1:
        comps.append(expr_text(rng))
    elif k == 2:
        comps.append(cur)
    elif k == 3:
        comps.append(f'{expr_text(rng)} {cur}')
    elif k == 4:
        comps.append(f'{expr_text(rng)}{tsp(rng, tight) if tight else " "}# {expr_text(rng)} {cur}')
    elif k == 5:
        comps.append(f'# {expr_text(rng)} {cur}')
    elif k == 6:
        comps.append(f'{expr_text(rng)}{tsp(rng, tight) if tight else " "}# {cur}')
    elif k == 7:
        comps.append(f'{expr_text(rng)}{cur}' if rng.random() < 0.3 else f'{number_text(rng)} {cur}')
    if rng.random() < 0.3:
        comps.append(date_text(rng))
    if rng.random() < 0.25:
        comps.append(string_text(rng, multiline=False))
    if rng.random() < 0.15:
        comps.append('*')
    if rng.random() < 0.3:
        rng.shuffle(comps)
    sep = rng.choice([', ', ',', ' , ', ', '])
    inner = sep.join(comps)
    pad = rng.choice(['', '', ' '])
    if rng.random() < 0.3:
        return '{{' + pad + inner + pad + '}}'
    return '{' + pad + inner + pad + '}'


def price_text(rng: random.Random) -> str:
    at = rng.choice(['@', '@', '@@'])
    k = rng.randrange(5)
    if k == 0:
        return at
    if k == 1:
        return f'{at} {currency_no_slash(rng)}'
    if k == 2:
        return f'{at} {expr_text(rng)}'
    return f'{at}{rng.choice([" ", "  ", ""])}{expr_text(rng)} {currency_no_slash(rng)}'


def posting_line(rng: random.Random, lay: Layout, indent: str) -> str:
    s = indent
    if rng.random() < 0.2:
        flag = rng.choice(FLAGS)
        s += flag + (tsp(rng, lay.tight) if flag in '!*?&%' else sp(rng))
    s += account(rng)
    r = rng.random()
    if r < 0.75:
        s += sp(rng) + expr_text(rng)
        if rng.random() < 0.9:
            s += rng.choice([' ', ' ', '  ']) + currency_no_slash(rng)
            if rng.random() < 0.35:
                s += tsp(rng, lay.tight) + cost_text(rng, lay.tight)
            if rng.random() < 0.3:
                s += tsp(rng, lay.tight) + price_text(rng)
    elif r < 0.82:
        s += sp(rng) + currency_no_slash(rng)
    return s + inline_comment(rng, lay)


def posting_block(rng: random.Random, lay: Layout) -> list[str]:
    out = []
    indent = lay.ind(rng)
    if rng.random() < lay.comment_density:
        out.extend(comment_block(rng, lay, indent))
    out.append(posting_line(rng, lay, indent))
    if rng.random() < 0.25:
        out.extend(meta_lines(rng, lay, deeper=True))
    if rng.random() < lay.comment_density * 0.5:
        out.extend(comment_block(rng, lay, indent))
    return out


def tags_links(rng: random.Random) -> str:
    out = ''
    for _ in range(rng.choice([0, 0, 1, 2, 3])):
        out += sp(rng) + rng.choice(['#', '^']) + taglink_value(rng)
    return out


DIRECTIVE_KINDS = ['option', 'include', 'plugin', 'pushtag', 'poptag', 'pushmeta', 'popmeta', 'balance', 'close',
                   'commodity', 'pad', 'event', 'query', 'price', 'note', 'document', 'open', 'custom',
                   'transaction', 'transaction', 'transaction', 'transaction', 'ignored_line']


def custom_values(rng: random.Random) -> str:
    out = ''
    prev_num = False
    for _ in range(rng.choice([0, 1, 2, 3, 4])):
        k = rng.randrange(6)
        if k == 0:
            v, num = string_text(rng, multiline=False), False
        elif k == 1:
            v, num = date_text(rng), False
        elif k == 2:
            v, num = bool_text(rng), False
        elif k == 3:
            v, num = account(rng), False
        elif k == 4:
            v, num = number_text(rng) + ' ' + currency_no_slash(rng), False
        else:
            v, num = number_text(rng), True
        if prev_num and (v[0] in '+-(' ):
            v = '(' + v + ')'
        out += sp(rng) + v
        prev_num = num
    return out


def directive_lines(rng: random.Random, lay: Layout, kind: Optional[str] = None) -> list[str]:
    kind = kind or rng.choice(DIRECTIVE_KINDS)
    ic = inline_comment(rng, lay)
    s = sp
    if kind == 'option':
        return [f'option{s(rng)}{string_text(rng, False)}{s(rng)}{string_text(rng)}{ic}']
    if kind == 'include':
        return [f'include{s(rng)}{string_text(rng, False)}{ic}']
    if kind == 'plugin':
        return [f'plugin{s(rng)}{string_text(rng, False)}' + (f'{s(rng)}{string_text(rng)}' if rng.random() < 0.5 else '') + ic]
    if kind == 'pushtag':
        return [f'pushtag{s(rng)}#{taglink_value(rng)}{ic}']
    if kind == 'poptag':
        return [f'poptag{s(rng)}#{taglink_value(rng)}{ic}']
    if kind == 'pushmeta':
        v = meta_value_text(rng)
        return [f'pushmeta{s(rng)}{rng.choice(KEYS)}:' + (s(rng) + v if v else '') + ic]
    if kind == 'popmeta':
        return [f'popmeta{s(rng)}{rng.choice(KEYS)}:{ic}']
    if kind == 'ignored_line':
        return [rng.choice(['* heading', '** sub heading', ': drawer', '#+TITLE: x', '# not a comment', '!bang', 'P legacy price', 'C 1', '*'])]
    d = date_text(rng)
    if kind == 'balance':
        tol = f'{tsp(rng, lay.tight)}~{tsp(rng, lay.tight)}{expr_text(rng)}' if rng.random() < 0.3 else ''
        head = f'{d}{s(rng)}balance{s(rng)}{account(rng)}{s(rng)}{expr_text(rng)}{tol}{s(rng)}{currency_no_slash(rng)}{ic}'
    elif kind == 'close':
        head = f'{d}{s(rng)}close{s(rng)}{account(rng)}{ic}'
    elif kind == 'commodity':
        head = f'{d}{s(rng)}commodity{s(rng)}{currency_no_slash(rng)}{ic}'
    elif kind == 'pad':
        head = f'{d}{s(rng)}pad{s(rng)}{account(rng)}{s(rng)}{account(rng)}{ic}'
    elif kind == 'event':
        head = f'{d}{s(rng)}event{s(rng)}{string_text(rng, False)}{s(rng)}{string_text(rng)}{ic}'
    elif kind == 'query':
        head = f'{d}{s(rng)}query{s(rng)}{string_text(rng, False)}{s(rng)}{string_text(rng)}{ic}'
    elif kind == 'price':
        head = f'{d}{s(rng)}price{s(rng)}{currency_no_slash(rng)}{s(rng)}{amount_text(rng)}{ic}'
    elif kind == 'note':
        head = f'{d}{s(rng)}note{s(rng)}{account(rng)}{s(rng)}{string_text(rng)}{tags_links(rng)}{ic}'
    elif kind == 'document':
        head = f'{d}{s(rng)}document{s(rng)}{account(rng)}{s(rng)}{string_text(rng, False)}{tags_links(rng)}{ic}'
    elif kind == 'open':
        curs = ''
        n = rng.choice([0, 0, 1, 2, 3])
        if n:
            curs = s(rng) + rng.choice([',', ', ', ' , ']).join(currency_no_slash(rng) for _ in range(n))
        booking = f'{s(rng)}"{rng.choice(["STRICT", "FIFO", "NONE"])}"' if rng.random() < 0.3 else ''
        head = f'{d}{s(rng)}open{s(rng)}{account(rng)}{curs}{booking}{ic}'
    elif kind == 'custom':
        head = f'{d}{s(rng)}custom{s(rng)}{string_text(rng, False)}{custom_values(rng)}{ic}'
    elif kind == 'transaction':
        flag = rng.choice(['*', '*', '!', 'txn', rng.choice(FLAGS)])
        strings = ''
        for _ in range(rng.choice([0, 1, 1, 2])):
            strings += (tsp(rng, lay.tight) if strings or flag in '*!' else s(rng)) + string_text(rng)
        tl = tags_links(rng)
        if tl and strings and lay.tight and rng.random() < lay.tight:
            tl = tl.lstrip(' \t')
        head = f'{d}{s(rng)}{flag}{strings}{tl}{ic}'
        lines = [head]
        lines.extend(meta_lines(rng, lay))
        for _ in range(rng.choice([0, 1, 2, 2, 3, 4])):
            lines.extend(posting_block(rng, lay))
        return lines
    else:
        raise core.HarnessError(kind)
    return [head] + meta_lines(rng, lay)


def gen_file(rng: random.Random, n_directives: Optional[int] = None, lay: Optional[Layout] = None,
             kinds: Optional[list[str]] = None) -> str:
    lay = lay or Layout(rng)
    if n_directives is None:
        n_directives = rng.choice([0, 1, 1, 2, 3, 4, 6, 8, 12, 20, 30])
    lines: list[str] = []
    if rng.random() < lay.comment_density:
        lines.extend(comment_block(rng, lay, ''))
        if rng.random() < 0.5:
            lines.append('')
    for i in range(n_directives):
        if rng.random() < lay.comment_density:
            lines.extend(comment_block(rng, lay, rng.choice(['', '', '', lay.indent])))
            if rng.random() < 0.4:
                lines.append('')
        lines.extend(directive_lines(rng, lay, rng.choice(kinds) if kinds else None))
        if rng.random() < lay.comment_density * 0.7:
            lines.extend(comment_block(rng, lay, ''))
        r = rng.random()
        if r < lay.blank_density:
            lines.extend(rng.choice([[''], [''], ['', ''], ['', '', ''], ['   '], ['\t', '']]))
    if rng.random() < lay.comment_density * 0.5:
        lines.extend(comment_block(rng, lay, ''))
    text = ''
    for i, line in enumerate(lines):
        text += line
        if i + 1 < len(lines) or lay.final_newline:
            text += lay.nl(rng)
    return text


# --- single-model snippets (donors) -------------------------------------------

def snippet(rng: random.Random, cls: type, indent: str = '    ', safe: bool = True) -> Optional[str]:
    lay = Layout(rng, eol='lf')
    lay.comment_density = 0.0 if safe else lay.comment_density
    name = cls.__name__
    if name == 'Posting':
        return posting_line(rng, lay, indent)
    if name == 'MetaItem':
        v = meta_value_text(rng)
        return indent + rng.choice(KEYS) + ':' + (' ' + v if v else '')
    if name == 'Amount':
        return expr_text(rng) + ' ' + currency_no_slash(rng)
    if name == 'NumberExpr':
        return expr_text(rng)
    if name == 'CostSpec':
        return cost_text(rng)
    if name == 'UnitPrice':
        return price_text(rng).replace('@@', '@')
    if name == 'TotalPrice':
        p = price_text(rng)
        return p if p.startswith('@@') else '@' + p
    if name == 'Tolerance':
        return '~ ' + expr_text(rng)
    if name == 'CompoundAmount':
        return rng.choice([f'{expr_text(rng)} # {expr_text(rng)} USD', f'# {expr_text(rng)} EUR', f'{number_text(rng)} # GBP'])
    rule = getattr(cls, 'RULE', None)
    if rule in DIRECTIVE_KINDS:
        return '\n'.join(directive_lines(rng, lay, rule))
    return None


# --- in-domain values per token class -------------------------------------------

def value_for(rng: random.Random, tok_cls: type, safe: bool = True) -> Any:
    """An in-domain value for tok_cls.value (lexical domain of the terminal)."""
    n = tok_cls.__name__
    if n == 'Date':
        return date_value(rng)
    if n == 'Account':
        return account(rng)
    if n == 'Currency':
        return currency_no_slash(rng) if safe else currency(rng)
    if n in ('Tag', 'Link'):
        return taglink_value(rng)
    if n == 'EscapedString':
        return string_value(rng)
    if n == 'Number':
        return number_value(rng)
    if n == 'NumberExpr':
        return signed_number_value(rng)
    if n == 'Bool':
        return rng.random() < 0.5
    if n == 'MetaKey':
        return meta_key_value(rng)
    if n == 'TransactionFlag':
        return rng.choice(FLAGS + ['*', '!'])   # 'txn' is a lexeme whose value is '*', not a value
    if n == 'PostingFlag':
        return rng.choice(FLAGS)
    if n == 'InlineComment':
        return inline_comment_value(rng)
    if n == 'BlockComment':
        return block_comment_value(rng)
    if n == 'Indent':
        return rng.choice(['    ', '  ', '\t', ' ', '        '])
    if n == 'Ignored':
        return rng.choice(['* heading', ': x', '#+y', '* other'])
    if n == 'UnaryOp':
        return None
    return None


def token_from_value(rng: random.Random, tok_cls: type, indent: str = '', safe: bool = True) -> Optional[Any]:
    n = tok_cls.__name__
    if n == 'BlockComment':
        return tok_cls.from_value(block_comment_value(rng), indent=indent)
    if hasattr(tok_cls, 'from_default') and not hasattr(tok_cls, '_format_value'):
        return tok_cls.from_default()
    if n == 'Null':
        return tok_cls.from_default()
    v = value_for(rng, tok_cls, safe)
    if v is None:
        if hasattr(tok_cls, 'from_default'):
            return tok_cls.from_default()
        return None
    return tok_cls.from_value(v)
