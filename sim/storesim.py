"""storesim: a bare TokenStore[Token] driven against a Python list (C07, C08,
and the store-level refusal clause of C19).

System under simulation: the real autobean_refactor.token_store module; nothing
is stubbed.  The tuning knob is the load factor (module globals, read at call
time), randomised per run.  The reference model is a Python list of the same
Token objects; positions are derived from ''.join(texts).
"""
from __future__ import annotations

import collections
import random
from typing import Optional

from . import core

core.use_repo()
from autobean_refactor import token_store as ts  # noqa: E402
from autobean_refactor import models  # noqa: E402

LOAD_FACTORS = [2, 2, 3, 3, 4, 5, 7, 10, 16, 64, 1000]
TEXTS = ['', '', 'a', 'bc', ' ', '\n', '\n', 'x\n', '\ny', 'p\nq', '\n\n', 'l1\nl2\nl3', '\t', 'é', 'zz zz']

_counters = collections.Counter()
_orig_split = ts.TokenStore._split_block
_orig_merge = ts.TokenStore._merge_blocks


def _split(self, block):
    _counters['block_split'] += 1
    return _orig_split(self, block)


def _merge(self, a, b):
    _counters['block_merge_or_rebalance'] += 1
    before = len(self._blocks)
    r = _orig_merge(self, a, b)
    if len(self._blocks) == before:
        _counters['block_rebalance'] += 1
    return r


ts.TokenStore._split_block = _split
ts.TokenStore._merge_blocks = _merge


_MODEL_TOKENS = False


class _BadRef(Exception):
    pass


def mk(text: str):
    """A plain Token, or (knob model_tokens) a real value token model whose
    value setter must keep the store's size caches coherent too."""
    if _MODEL_TOKENS:
        return models.EscapedString.from_value(text)
    return ts.Token(text)


def _edit_detached(new: list, op: dict, stats) -> None:
    for t, txt in zip(new, op.get('edit_detached', [])):
        stats['detached_token_edited_before_insertion'] += 1
        if _MODEL_TOKENS:
            t.value = txt
        else:
            t.raw_text = txt


def set_load_factor(lf: int) -> None:
    ts._LOAD_FACTOR = lf
    ts._DOUBLE_LOAD_FACTOR = lf * 2
    ts._HALF_LOAD_FACTOR = lf // 2
    ts._ONE_HALF_LOAD_FACTOR = lf + lf // 2


def text_positions(texts: list[str]) -> list[tuple[int, int]]:
    out = []
    line = col = 0
    for t in texts:
        out.append((line, col))
        n = t.count('\n')
        if n:
            line += n
            col = len(t) - t.rfind('\n') - 1
        else:
            col += len(t)
    return out


def check_store(store, ref: list, removed: list, step: int, rng_pairs: list[tuple[int, int]],
                full: bool = True, around: Optional[tuple[int, int]] = None) -> list[core.Violation]:
    """I-store: the store agrees with the reference list `ref` (same objects)."""
    V = []

    def v(prop, clause, msg):
        V.append(core.Violation(prop, clause, step, msg))

    try:
        got = list(store)
    except Exception as e:
        v('C07', 'iter', f'iteration raised {type(e).__name__}: {e}')
        return V
    if len(got) != len(ref) or any(a is not b for a, b in zip(got, ref)):
        v('C07', 'iter', f'iteration differs from list model: {len(got)} tokens vs {len(ref)} expected; '
          f'first mismatch at {next((i for i, (a, b) in enumerate(zip(got, ref)) if a is not b), min(len(got), len(ref)))}')
        return V
    if len(store) != len(ref):
        v('C07', 'len', f'len(store)={len(store)} but list has {len(ref)}')
    first, last = store.get_first(), store.get_last()
    if ref:
        if first is not ref[0]:
            v('C07', 'first', 'get_first() is not the first element')
        if last is not ref[-1]:
            v('C07', 'last', 'get_last() is not the last element')
    else:
        if first is not None or last is not None:
            v('C07', 'first', 'get_first()/get_last() not None on empty store')
    for t in removed:
        if t.store_handle is not None and not any(t is r for r in ref):
            v('C07', 'detached', 'removed token still has a store handle')
            break
    n = len(ref)
    if full or n <= 400:
        idxs = range(n)
    else:
        s = set()
        if around:
            s.update(range(max(0, around[0] - 30), min(n, around[1] + 30)))
        s.update(i for p in rng_pairs for i in p if i < n)
        s.update((0, n - 1))
        idxs = sorted(s)
    texts = [t.raw_text for t in ref]
    pos = text_positions(texts)
    bad7 = bad8 = None
    for i in idxs:
        t = ref[i]
        try:
            if t.store_handle is None or t.store_handle.block.store is not store:
                bad7 = bad7 or f'token {i} does not resolve to this store'
                continue
            nxt = store.get_next(t)
            prv = store.get_prev(t)
            exp_n = ref[i + 1] if i + 1 < n else None
            exp_p = ref[i - 1] if i else None
            if nxt is not exp_n:
                bad7 = bad7 or f'get_next(token {i}) wrong'
            if prv is not exp_p:
                bad7 = bad7 or f'get_prev(token {i}) wrong'
            gi = store.get_index(t)
            if gi != i:
                bad8 = bad8 or ('index', f'get_index(token {i}) = {gi}')
            p = store.get_position(t)
            if (p.line, p.column) != pos[i]:
                bad8 = bad8 or ('position', f'get_position(token {i}) = ({p.line},{p.column}), text says {pos[i]}')
        except Exception as e:
            bad7 = bad7 or f'navigation at token {i} raised {type(e).__name__}: {e}'
    if bad7:
        v('C07', 'navigate', bad7)
    if bad8:
        v('C08', bad8[0], bad8[1])
        if bad8[0] == 'index':
            v('C07', 'index', bad8[1])
    for a, b in rng_pairs:
        if a < n and b < n and a <= b:
            try:
                sub = list(store.iter(ref[a], ref[b]))
            except Exception as e:
                v('C07', 'subrange', f'iter({a},{b}) raised {type(e).__name__}: {e}')
                break
            if len(sub) != b - a + 1 or any(x is not y for x, y in zip(sub, ref[a:b + 1])):
                v('C07', 'subrange', f'iter({a},{b}) differs from list slice')
                break
    return V


def blocks_signature(store) -> str:
    return ','.join(str(len(b.tokens)) for b in store._blocks)


class StoreSim(core.Engine):
    name = 'storesim'

    # -- op generation -----------------------------------------------------
    def _gen_op(self, rng: random.Random, n: int, lf: int, ref: list) -> dict:
        kinds = ['splice', 'splice', 'splice', 'insert_after', 'insert_before', 'replace',
                 'remove', 'remove', 'update', 'update', 'permute', 'resplice', 'bulk', 'refuse']
        kind = rng.choice(kinds)
        if n == 0 and kind in ('replace', 'remove', 'update', 'permute', 'resplice', 'refuse'):
            kind = 'insert_after'

        def new(k=None):
            k = rng.choice([0, 1, 1, 2, 3, lf, lf + 1, 2 * lf]) if k is None else k
            return [rng.choice(TEXTS) for _ in range(k)]

        def span():
            a = rng.randrange(n)
            width = rng.choice([0, 0, 1, 2, lf, lf * 2, lf * 3, lf * 5, n])
            return a, min(n - 1, a + width)
        if kind == 'splice':
            if n == 0 or rng.random() < 0.15:
                return {'op': 'splice', 'ref': None, 'del_end': None if n == 0 or rng.random() < .5 else rng.randrange(n), 'new': new()}
            a, b = span()
            return {'op': 'splice', 'ref': a, 'del_end': b if rng.random() < 0.8 else None, 'new': new()}
        if kind in ('insert_after', 'insert_before'):
            op = {'op': kind, 'ref': None if n == 0 or rng.random() < 0.1 else rng.randrange(n), 'new': new()}
            if rng.random() < 0.3 and op['new']:
                # tokens edited while detached (before insertion) must carry their new size into the store
                op['edit_detached'] = [rng.choice(TEXTS) for _ in op['new']]
            return op
        if kind == 'replace':
            if rng.random() < 0.2:
                # a token replaced by itself: what a list does for xs[i] = xs[i]
                return {'op': 'replace', 'ref': rng.randrange(n), 'new': [], 'self': True}
            return {'op': 'replace', 'ref': rng.randrange(n), 'new': new(1)}
        if kind == 'resplice':
            # the range is replaced by a mix of some of its own tokens (any order) and fresh ones
            a, b = span()
            b = min(b, a + 12)
            keep = [i for i in range(a, b + 1) if rng.random() < 0.6]
            rng.shuffle(keep)
            mix = [('k', i) for i in keep] + [('n', t) for t in new(rng.choice([0, 1, 2]))]
            if rng.random() < 0.5:
                rng.shuffle(mix)
            return {'op': 'resplice', 'ref': a, 'del_end': b, 'mix': [list(m) for m in mix]}
        if kind == 'remove':
            a, b = span()
            return {'op': 'remove', 'ref': a, 'del_end': b if rng.random() < 0.8 else None}
        if kind == 'update':
            return {'op': 'update', 'ref': rng.randrange(n), 'text': rng.choice(TEXTS), 'via': rng.choice(['raw_text', 'value'])}
        if kind == 'permute':
            a, b = span()
            b = min(b, a + 12)
            order = list(range(a, b + 1))
            rng.shuffle(order)
            return {'op': 'permute', 'ref': a, 'del_end': b, 'order': order}
        if kind == 'bulk':
            return {'op': 'insert_after', 'ref': None if n == 0 else rng.randrange(n), 'new': new(rng.choice([2 * lf, 3 * lf + 1, 5 * lf]))}
        # refuse: splice containing a token that lives outside the range
        a, b = span()
        if rng.random() < 0.3:
            return {'op': 'refuse', 'ref': a, 'del_end': b, 'alien': rng.randrange(a, b + 1), 'other_store': True,
                    'new': new(rng.choice([0, 1, 2])), 'pos': rng.randrange(3)}
        outside = [i for i in range(n) if i < a or i > b]
        if not outside:
            return {'op': 'update', 'ref': rng.randrange(n), 'text': rng.choice(TEXTS)}
        return {'op': 'refuse', 'ref': a, 'del_end': b, 'alien': rng.choice(outside), 'new': new(rng.choice([0, 1, 2])),
                'pos': rng.randrange(3)}

    # -- op execution --------------------------------------------------------
    def _apply(self, store, ref: list, op: dict, stats) -> tuple[list, Optional[tuple[int, int]], Optional[str]]:
        """Applies op to both the store and the list model.  Returns
        (removed tokens, edit window in the new list, refusal outcome)."""
        n = len(ref)
        kind = op['op']

        def tok(i):
            if i is None:
                return None
            if not 0 <= i < n:
                raise _BadRef
            return ref[i]

        def blocks_spanned(a, b):
            if a is None or b is None:
                return 1
            return abs(ref[b].store_handle.block.index - ref[a].store_handle.block.index) + 1
        try:
            if kind == 'splice':
                a, b = op['ref'], op['del_end']
                new = [mk(t) for t in op['new']]
                ra, rb = tok(a), tok(b)
                start = 0 if a is None else a
                end = start if b is None else b + 1
                if end < start:
                    return [], None, 'skip'
                stats['multi_block_splice' if blocks_spanned(a if a is not None else 0, b) > 1 else 'single_block_splice'] += 1
                store.splice(new, ra, rb)
                removed = ref[start:end]
                ref[start:end] = new
                return removed, (start, start + len(new)), None
            if kind == 'insert_after':
                a = op['ref']
                new = [mk(t) for t in op['new']]
                _edit_detached(new, op, stats)
                store.insert_after(tok(a), new)
                at = 0 if a is None else a + 1
                ref[at:at] = new
                return [], (at, at + len(new)), None
            if kind == 'insert_before':
                a = op['ref']
                new = [mk(t) for t in op['new']]
                _edit_detached(new, op, stats)
                store.insert_before(tok(a), new)
                at = 0 if a is None else a
                ref[at:at] = new
                return [], (at, at + len(new)), None
            if kind == 'replace':
                a = op['ref']
                old = tok(a)
                if op.get('self'):
                    stats['replace_by_itself'] += 1
                    store.replace(old, old)
                    return [], (a, a + 1), None
                new = mk(op['new'][0])
                store.replace(old, new)
                ref[a] = new
                return [old], (a, a + 1), None
            if kind == 'resplice':
                a, b = op['ref'], op['del_end']
                if not (0 <= a <= b < n):
                    return [], None, 'skip'
                kept = [m[1] for m in op['mix'] if m[0] == 'k']
                if len(set(kept)) != len(kept) or any(not (a <= i <= b) for i in kept):
                    return [], None, 'skip'
                new = [ref[m[1]] if m[0] == 'k' else mk(m[1]) for m in op['mix']]
                removed = [ref[i] for i in range(a, b + 1) if i not in set(kept)]
                stats['resplice_mixed_tokens'] += 1
                store.splice(new, ref[a], ref[b])
                ref[a:b + 1] = new
                return removed, (a, a + len(new)), None
            if kind == 'remove':
                a, b = op['ref'], op['del_end']
                ra, rb = tok(a), tok(b)
                end = a + 1 if b is None else b + 1
                if end <= a:
                    return [], None, 'skip'
                stats['multi_block_splice' if blocks_spanned(a, b if b is not None else a) > 1 else 'single_block_splice'] += 1
                store.remove(ra, rb)
                removed = ref[a:end]
                del ref[a:end]
                return removed, (a, a), None
            if kind == 'update':
                a = op['ref']
                t = tok(a)
                had, has = '\n' in t.raw_text, '\n' in op['text']
                stats['update_adds_newline' if has and not had else 'update_removes_newline' if had and not has else 'update_plain'] += 1
                if _MODEL_TOKENS and op.get('via') == 'value':
                    stats['update_via_value_setter'] += 1
                    t.value = op['text']
                elif _MODEL_TOKENS:
                    t.raw_text = '"' + op['text'] + '"'
                else:
                    t.raw_text = op['text']
                return [], (a, a + 1), None
            if kind == 'permute':
                a, b = op['ref'], op['del_end']
                if not (0 <= a <= b < n) or sorted(op['order']) != list(range(a, b + 1)):
                    return [], None, 'skip'
                new = [ref[i] for i in op['order']]
                stats['permute_same_tokens'] += 1
                store.splice(new, ref[a], ref[b])
                ref[a:b + 1] = new
                return [], (a, b + 1), None
            if kind == 'refuse':
                a, b, al = op['ref'], op['del_end'], op['alien']
                if not (0 <= a <= b < n) or not (0 <= al < n) or (a <= al <= b and not op.get('other_store')):
                    return [], None, 'skip'
                new = [mk(t) for t in op['new']]
                alien = ref[al]
                if op.get('other_store'):
                    # a token of another store whose (block, index) coordinates fall inside the range
                    side = ts.TokenStore.from_tokens([mk('s') for _ in range(al + 1)])
                    alien = list(side)[al]
                    if not any(alien.store_handle.index == r.store_handle.index and
                               alien.store_handle.block.index == r.store_handle.block.index for r in ref[a:b + 1]):
                        stats['fault:alien_other_store_outside_coords'] += 1
                    else:
                        stats['fault:alien_other_store_inside_coords'] += 1
                new.insert(min(op['pos'], len(new)), alien)
                try:
                    store.splice(new, ref[a], ref[b])
                except ValueError:
                    stats['fault:alien_token_refused'] += 1
                    return [], None, 'refused'
                return [], None, 'not_refused'
        except _BadRef:
            # the trace names a position the list does not have (after minimisation); an IndexError raised
            # by the store itself is not caught here: it is a verdict
            return [], None, 'skip'
        raise core.HarnessError(f'unknown op {kind}')

    # -- run ---------------------------------------------------------------
    @core.stuck_guard
    def _execute(self, trace: dict, prop: str, rng: Optional[random.Random], n_ops: int) -> core.RunResult:
        global _MODEL_TOKENS
        lf = trace['knobs']['load_factor']
        set_load_factor(lf)
        _MODEL_TOKENS = bool(trace['knobs'].get('model_tokens'))
        _counters.clear()
        stats = collections.Counter()
        log: list = [{'knobs': trace['knobs'], 'init': len(trace['init'])}]
        ref = [mk(t) for t in trace['init']]
        store = ts.TokenStore.from_tokens(list(ref))
        res = core.RunResult(trace=trace, violations=[], stats=stats, log=log)
        sig = []
        pair_rng = random.Random(len(trace['init']) * 7919 + lf)
        V = check_store(store, ref, [], -1, [], full=True)
        if V:
            res.violations = V
            return res
        ops = trace['ops']
        step = 0
        while True:
            if rng is not None:
                if step >= n_ops:
                    break
                op = self._gen_op(rng, len(ref), lf, ref)
                ops.append(op)
            else:
                if step >= len(ops):
                    break
                op = ops[step]
            before_ids = list(ref)
            before_texts = [t.raw_text for t in ref]
            removed: list = []
            window = None
            outcome: Optional[str] = None
            V = []
            try:
                removed, window, outcome = self._apply(store, ref, op, stats)
            except core.HarnessError:
                raise
            except Exception as e:
                V.append(core.Violation('C07', 'raises', step, f'{op["op"]} raised {type(e).__name__}: {e}'))
            if not V:
                if outcome == 'skip':
                    stats['op_skipped'] += 1
                    log.append({'n': step, 'op': op['op'], 'outcome': 'skipped'})
                    step += 1
                    continue
                if outcome == 'not_refused':
                    V.append(core.Violation('C19', 'store_alien_accepted', step,
                                            'splice accepted a token that lives elsewhere in the store'))
                elif outcome == 'refused':
                    now = list(store)
                    if len(now) != len(before_ids) or any(a is not b for a, b in zip(now, before_ids)) \
                            or [t.raw_text for t in now] != before_texts:
                        V.append(core.Violation('C19', 'store_refusal_not_noop', step, 'refused splice changed the store'))
                n = len(ref)
                pairs = [(pair_rng.randrange(n), pair_rng.randrange(n)) for _ in range(4)] if n else []
                pairs = [(min(a, b), max(a, b)) for a, b in pairs]
                if outcome != 'not_refused':  # after an accepted alien the list model has no meaning
                    V.extend(check_store(store, ref, removed, step, pairs, full=(n <= 400), around=window))
            stats[f'op:{op["op"]}'] += 1
            sig.append(op['op'] + ('M' if len(store._blocks) > 1 else 'S'))
            res.relevant_ops += 1
            res.states.add(blocks_signature(store) if len(store._blocks) <= 12 else core.sha(blocks_signature(store)))
            log.append({'n': step, 'op': op['op'], 'outcome': outcome or 'ok', 'len': len(ref),
                        'blocks': len(store._blocks), 'text': core.sha(''.join(t.raw_text for t in ref))})
            if V:
                res.violations = V
                break
            step += 1
        stats.update(_counters)
        stats[f'load_factor:{lf}'] += 1
        stats[f'model_tokens:{_MODEL_TOKENS}'] += 1
        stats['max_blocks>1'] += 1 if any(e.get('blocks', 1) > 1 for e in log[1:]) else 0
        res.history_sig = core.sha(' '.join(sig) + f'|{lf}')
        return res

    def generate(self, rng: random.Random, prop: str, tier: str, run: int) -> core.RunResult:
        lf = rng.choice(LOAD_FACTORS)
        big = tier == 'thorough' and rng.random() < 0.15
        if lf == 1000 and rng.random() < 0.7:
            n0 = rng.choice([1400, 1999, 2000, 2500, 3100])
        elif big:
            n0 = rng.randrange(300, 1500)
        else:
            n0 = rng.choice([0, 0, 1, 2, lf, 2 * lf, 3 * lf, rng.randrange(0, 121)])
            n0 = min(n0, 3000)
        init = [rng.choice(TEXTS) for _ in range(n0)]
        n_ops = rng.choice([3, 5, 8, 12, 20, 40, 60]) if tier == 'quick' else rng.choice([3, 8, 20, 40, 60, 60])
        trace = {'knobs': {'load_factor': lf, 'model_tokens': rng.random() < 0.4}, 'init': init, 'ops': []}
        return self._execute(trace, prop, rng, n_ops)

    def replay(self, trace: dict, prop: str) -> core.RunResult:
        t = {'knobs': dict(trace['knobs']), 'init': list(trace['init']), 'ops': list(trace['ops'])}
        return self._execute(t, prop, None, 0)

    def shrink_candidates(self, trace: dict):
        init = trace['init']
        # drop halves / single tokens of the initial content (indices in ops shift: only tail drops are safe)
        for k in (len(init) // 2, len(init) - 1):
            if 0 <= k < len(init):
                yield dict(trace, init=init[:k])
        # simplify texts
        if any(t not in ('', 'a', '\n') for t in init):
            yield dict(trace, init=['\n' if '\n' in t else ('a' if t else '') for t in init])
        for i, op in enumerate(trace['ops']):
            if op.get('new') and len(op['new']) > 1:
                ops = list(trace['ops'])
                ops[i] = dict(op, new=op['new'][:len(op['new']) // 2])
                yield dict(trace, ops=ops)

    def describe(self) -> dict:
        return {
            'real_code': ['autobean_refactor.token_store (TokenStore, Token, _StoreBlock)'],
            'stubs': [],
            'seams': ['token_store._LOAD_FACTOR and derived module globals set per run',
                      'TokenStore._split_block/_merge_blocks wrapped by counting pass-throughs (reach probes)'],
        }
