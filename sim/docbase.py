"""docsim foundations: session state, path-addressed references, JSON value
encoding, donor recipes, token snapshots and the identity diff (R_text)."""
from __future__ import annotations

import collections
import copy
import datetime
import decimal
import io
from typing import Any, Optional

from . import core
from . import introspect as I
from . import walker as W

models = I.models
from autobean_refactor import parser as parser_lib, printer  # noqa: E402
from autobean_refactor import token_store as ts  # noqa: E402

_PARSER: Optional[parser_lib.Parser] = None


def parser() -> parser_lib.Parser:
    global _PARSER
    if _PARSER is None:
        _PARSER = parser_lib.Parser()
    return _PARSER


class Unresolvable(Exception):
    """A recorded reference no longer resolves (op becomes a skipped no-op)."""


def print_model(m: Any) -> str:
    return printer.print_model(m, io.StringIO()).getvalue()


# --------------------------------------------------------------------------
# values <-> JSON

def enc(v: Any) -> Any:
    if v is None or isinstance(v, (bool, str, int)):
        return v
    if isinstance(v, decimal.Decimal):
        return {'dec': str(v)}
    if isinstance(v, datetime.date):
        return {'date': v.isoformat()}
    raise core.HarnessError(f'cannot encode value {v!r}')


def dec(j: Any) -> Any:
    if isinstance(j, dict):
        if 'dec' in j:
            return decimal.Decimal(j['dec'])
        if 'date' in j:
            return datetime.date.fromisoformat(j['date'])
        raise core.HarnessError(f'cannot decode {j!r}')
    return j


# --------------------------------------------------------------------------
# session

class Session:
    def __init__(self, knobs: dict, text: str):
        self.knobs = knobs
        self.text0 = text
        self.root = parser().parse(text, models.File, auto_claim_comments=knobs.get('auto_claim', True))
        self.pool: list[Any] = []
        self.handles: list[Optional[dict]] = []   # {'owner': obj, 'member': str, 'view': obj}
        self.stats = collections.Counter()
        self.recent: list[Any] = []                # recently inserted nodes (objects)

    # -- stores ---------------------------------------------------------------
    def roots(self) -> list[tuple[Any, Any]]:
        """(key, node) for the document and every live pool member."""
        out = [('doc', self.root)]
        for k, m in enumerate(self.pool):
            if m is not None:
                out.append((k, m))
        return out

    def snapshot(self) -> dict:
        snap = {}
        for key, node in self.roots():
            store = node.token_store
            if store is None:
                toks = [node] if isinstance(node, models.RawTokenModel) else []
            else:
                toks = list(store)
            snap[key] = (node, store, [(t, t.raw_text) for t in toks])
        return snap

    # -- references -------------------------------------------------------------
    def resolve(self, ref: dict) -> Any:
        r = ref['r']
        if r == 'doc':
            obj = self.root
        elif isinstance(r, list) and r[0] == 'pool':
            if r[1] >= len(self.pool) or self.pool[r[1]] is None:
                raise Unresolvable(f'pool {r[1]} is gone')
            obj = self.pool[r[1]]
        elif isinstance(r, list) and r[0] == 'handle':
            if r[1] >= len(self.handles) or self.handles[r[1]] is None:
                raise Unresolvable(f'handle {r[1]} is gone')
            obj = self.handles[r[1]]['view']
        else:
            raise core.HarnessError(f'bad ref {ref!r}')
        for step in ref.get('p', []):
            try:
                if isinstance(step, int):
                    if not -len(obj) <= step < len(obj):
                        raise Unresolvable(f'index {step} out of range')
                    obj = obj[step]
                else:
                    if not hasattr(type(obj), step) and not hasattr(obj, step):
                        raise Unresolvable(f'no attribute {step}')
                    obj = getattr(obj, step)
            except Unresolvable:
                raise
            except (IndexError, KeyError, TypeError, AttributeError) as e:
                raise Unresolvable(f'{step}: {e}')
            if obj is None:
                raise Unresolvable(f'{step} is None')
        return obj

    def root_key(self, ref: dict) -> Any:
        r = ref['r']
        if r == 'doc':
            return 'doc'
        if r[0] == 'pool':
            return r[1]
        h = self.handles[r[1]]
        return self.key_of_node(h['owner']) if h else None

    def key_of_node(self, node: Any) -> Any:
        """Which root (doc / pool index) a node currently lives in, by store."""
        st = getattr(node, 'token_store', None)
        if st is None:
            for k, m in enumerate(self.pool):
                if m is node:
                    return k
            return None
        if st is self.root.token_store:
            return 'doc'
        for k, m in enumerate(self.pool):
            if m is not None and m.token_store is st:
                return k
        return None


# --------------------------------------------------------------------------
# public-API enumeration of addressable nodes

def enumerate_nodes(root: Any, base: list, limit: int = 4000) -> list[tuple[list, Any]]:
    """(path, node) for every model reachable from root through the public raw
    API, including tokens.  Wrappers are addressed as path + [member]."""
    out: list[tuple[list, Any]] = []

    def walk(node: Any, path: list) -> None:
        if len(out) >= limit:
            return
        out.append((path, node))
        if isinstance(node, models.RawTokenModel):
            return
        if isinstance(node, I.SPECIAL_EXPR):
            for i, operand in enumerate(node.raw_operands):
                walk(operand, path + ['raw_operands', i])
            for i, op in enumerate(node.raw_ops):
                walk(op, path + ['raw_ops', i])
            return
        seen_slots = set()
        for name, m in I.members_of(node).items():
            if m.kind in ('raw_required', 'raw_optional'):
                if m.slot in seen_slots:
                    continue
                seen_slots.add(m.slot)
                child = getattr(node, name)
                if child is not None:
                    walk(child, path + [name])
            elif m.kind in ('raw_repeated', 'raw_repeated_comments'):
                if m.slot in seen_slots:
                    continue
                seen_slots.add(m.slot)
                wrapper = getattr(node, name)
                for i, item in enumerate(list(wrapper)):
                    walk(item, path + [name, i])

    walk(root, list(base))
    return out


# --------------------------------------------------------------------------
# identity diff of token lists (R_text)

class Diff:
    def __init__(self, before: list[tuple[Any, str]], after: list[Any]):
        self.before = before
        self.after = after
        self.after_ids = {id(t): i for i, t in enumerate(after)}
        self.before_ids = {id(t): i for i, (t, _) in enumerate(before)}
        self.removed = [i for i, (t, _) in enumerate(before) if id(t) not in self.after_ids]
        self.added = [i for i, t in enumerate(after) if id(t) not in self.before_ids]
        self.changed = [i for i, (t, txt) in enumerate(before)
                        if id(t) in self.after_ids and t.raw_text != txt]

    def unchanged(self) -> bool:
        return not self.removed and not self.added and not self.changed and self.order_preserved(False)

    def order_preserved(self, ignore_empty: bool) -> bool:
        a = [id(t) for t, txt in self.before if id(t) in self.after_ids and not (ignore_empty and not txt)]
        b = [id(t) for t in self.after if id(t) in self.before_ids and not (ignore_empty and not t.raw_text)]
        if ignore_empty:
            # a token may have changed emptiness; compare on the common subset
            sa, sb = set(a), set(b)
            a = [x for x in a if x in sb]
            b = [x for x in b if x in sa]
        return a == b

    def runs(self, idxs: list[int], seq_texts_unchanged_empty) -> list[list[int]]:
        """Maximal runs of indices, bridging over unchanged zero-width tokens."""
        runs: list[list[int]] = []
        s = set(idxs)
        cur: list[int] = []
        last = None
        for i in sorted(s):
            if last is not None and all(seq_texts_unchanged_empty(j) for j in range(last + 1, i)):
                cur.append(i)
            else:
                if cur:
                    runs.append(cur)
                cur = [i]
            last = i
        if cur:
            runs.append(cur)
        return runs

    def removed_runs(self) -> list[list[int]]:
        return self.runs(self.removed, lambda j: not self.before[j][1])

    def added_runs(self) -> list[list[int]]:
        return self.runs(self.added, lambda j: not self.after[j].raw_text)


def text_of(toks: list) -> str:
    return ''.join(t.raw_text for t in toks)


def is_sep(tok: Any) -> bool:
    return isinstance(tok, W.TRIVIA) or not tok.raw_text
