"""Entry point: ./check <ID> [--tier quick|thorough] [--replay FILE] [--runs N] [--workers N]

Exit 0: property held on everything explored.  Exit 1 + `VIOLATION property=<id>
replay=<path>`: violation found (minimised, replayable).  Exit 2 +
`HARNESS-ERROR`: the machinery itself failed (never a verdict).
"""
from __future__ import annotations

import argparse
import collections
import json
import os
import sys
import time

from . import core

DEFAULT_SEED = 20261004


def engine_factory(name: str):
    def make():
        if name == 'storesim':
            from . import storesim
            return storesim.StoreSim()
        if name == 'docsim':
            from . import docsim
            return docsim.DocSim()
        if name == 'toksim':
            from . import toksim
            return toksim.TokSim()
        if name == 'exprsim':
            from . import exprsim
            return exprsim.ExprSim()
        if name == 'edsim':
            from . import edsim
            return edsim.EdSim()
        raise core.HarnessError(f'unknown engine {name}')
    return make


# property -> list of (engine, quick runs, thorough runs)
PLAN: dict[str, list[tuple[str, int, int]]] = {
    'C07': [('storesim', 4000, 50000), ('docsim', 500, 8000)],
    'C08': [('storesim', 3000, 40000), ('docsim', 900, 15000), ('edsim', 600, 6000)],
    'C19': [('docsim', 1400, 30000), ('storesim', 1200, 15000), ('exprsim', 3000, 30000)],
    'C12': [('toksim', 60000, 600000)],
    'C13': [('exprsim', 8000, 100000)],
    'C16': [('edsim', 2500, 30000)],
    'C02': [('docsim', 3000, 40000)],
    'C03': [('docsim', 3000, 40000)],
    'C04': [('docsim', 3000, 40000)],
    'C05': [('docsim', 2800, 40000), ('exprsim', 3000, 40000)],
    'C06': [('docsim', 2500, 30000)],
    'C09': [('docsim', 2500, 30000)],
    'C10': [('docsim', 3000, 40000)],
    'C11': [('docsim', 3000, 40000)],
    'C14': [('docsim', 3000, 40000)],
    'C17': [('docsim', 3000, 40000)],
    'C18': [('docsim', 3000, 40000)],
    'C20': [('docsim', 2500, 30000)],
}

LEVEL = collections.defaultdict(lambda: 'exploration', {'C16': 'fault_enumeration', 'C19': 'fault_enumeration'})

RULES = {
    'storesim': 'one run = (load factor, initial token texts, op list) drawn from sha256(VERIF_SEED, property, run index); '
                'a run is non-trivial when it executed >= 1 store operation; distinct = distinct hash of the '
                '(operation kind, single/multi-block state) sequence plus load factor',
    'docsim': 'one run = (load factor, attribution mode, generated document, disabled op classes, concrete path-addressed op/fault list) drawn from '
              'sha256(VERIF_SEED, property, run index); non-trivial = executed >= 1 operation of a class relevant to the property; distinct = '
              'distinct hash of the (operation kind @ target class.member) sequence',
    'toksim': 'one run = (token class, constructor route, free/attached, neighbours, assignment list); non-trivial = constructor clause evaluated; '
              'distinct = distinct hash of (class, route, op kinds, final raw text)',
    'exprsim': 'one run = (document with expressions, free expressions, operator applications); non-trivial = >= 1 operator applied; distinct = '
               'distinct hash of the (mode, operator, attached/free operands) sequence',
    'edsim': 'one run = a world (files, include graph, line ends), an entry (api, file, spelling, str/Path, cwd), a glob permutation and a scripted '
             'body, executed once plainly and once per crash point k with a raise before step k; non-trivial = reached the with-block or an entry '
             'verdict; distinct = distinct hash of (entry, body op kinds, file names)',
}


def _print(*a):
    print(*a, flush=True)


def do_replay(prop: str, path: str) -> int:
    payload = core.read_replay(path)
    eng = engine_factory(payload['engine'])()
    res = eng.replay(payload['trace'], prop)
    exp = payload.get('expected', {})
    for v in res.violations:
        _print(f'  violation {v.prop}/{v.clause} at step {v.step}: {v.msg}')
    same = any(v.prop == exp.get('prop', prop) and v.clause == exp.get('clause') for v in res.violations)
    _print(f'digest {res.digest()} (recorded {payload.get("digest")})')
    if same:
        _print(f'VIOLATION property={prop} replay={path}')
        return 1
    if any(v.prop == prop for v in res.violations):
        _print(f'VIOLATION property={prop} replay={path}')
        return 1
    _print('replay did not reproduce a violation of', prop)
    return 0


def known_finding_matches(finding: dict, violation: dict, trace: dict) -> bool:
    # engines attribute violations to listed findings themselves (sim/findings.py predicates evaluated on
    # the failing state); nothing is suppressed here
    return False


def main(argv=None) -> int:
    ap = argparse.ArgumentParser()
    ap.add_argument('prop')
    ap.add_argument('--tier', default=os.environ.get('VERIF_TIER', 'quick'), choices=['quick', 'thorough'])
    ap.add_argument('--replay')
    ap.add_argument('--runs', type=int)
    ap.add_argument('--workers', type=int, default=int(os.environ.get('VERIF_WORKERS', '16')))
    ap.add_argument('--no-minimise', action='store_true')
    ap.add_argument('--no-evidence', action='store_true')
    ap.add_argument('--digest-only', action='store_true', help='print the batch digest and exit (self-test)')
    args = ap.parse_args(argv)
    prop = args.prop
    core.use_repo()
    if args.replay:
        return do_replay(prop, args.replay)
    if prop not in PLAN:
        _print(f'HARNESS-ERROR property {prop} has no check (not applicable or unknown)')
        return 2
    base_seed = int(os.environ.get('VERIF_SEED', DEFAULT_SEED))
    t0 = time.monotonic()
    _print(f'check {prop} tier={args.tier} VERIF_SEED={base_seed} PYTHONHASHSEED={os.environ.get("PYTHONHASHSEED")} repo={core.REPO_DIR}')

    parts = []
    errors = []
    batch_errors: list = []
    for engine_name, quick_runs, thorough_runs in PLAN[prop]:
        runs = args.runs or (quick_runs if args.tier == 'quick' else thorough_runs)
        cfg = core.BatchConfig(prop=prop, tier=args.tier, base_seed=base_seed, runs=runs, workers=args.workers,
                               wall_budget_s=(240 if args.tier == 'quick' else 3000))
        try:
            agg = core.run_batch(engine_factory(engine_name), cfg)
        except core.HarnessError as e:
            # (for instance a worker killed by the hang watchdog.)  The other engines still run: a violation
            # they find is real whatever happened here, and is reported before the harness error
            _print(f'HARNESS-ERROR {engine_name}: {e}')
            batch_errors.append((engine_name, str(e)))
            continue
        agg['engine'] = engine_name
        parts.append(agg)
        errors.extend((engine_name, r, e) for r, e in agg['errors'])
        _print(f'  {engine_name}: runs={agg["runs"]} steps={agg["steps"]} violations(runs)={len(agg["violations"])} '
               f'skipped={sum(agg["skipped"].values())} wall={agg["wall_s"]:.1f}s digest={agg["batch_digest"][:16]}')
    if args.digest_only:
        for agg in parts:
            _print(f'DIGEST {agg["engine"]} {agg["batch_digest"]}')
        return 2 if errors or batch_errors else 0
    found_any = any(agg['violations'] for agg in parts)
    if errors:
        for engine_name, r, e in errors[:3]:
            _print(f'HARNESS-ERROR {engine_name} run {r}: {e}')
        _print(f'HARNESS-ERROR {len(errors)} run(s) raised inside the harness')
    if (errors or batch_errors) and not found_any:
        return 2

    # known findings: replay each stored trace, report it if it still fails
    # every open finding that can suppress a clause of this property is announced by this check
    findings = [f for f in core.open_findings() if f['property'] == prop or any(c[0] == prop for c in f.get('clauses', []))]
    for f in findings:
        rp = os.path.join(core.VERIF_DIR, f['replay'])
        payload = core.read_replay(rp)
        eng = engine_factory(payload['engine'])()
        res = eng.replay(payload['trace'], prop)
        if f['id'] in res.known_hits or any([v.prop, v.clause] in f['clauses'] for v in res.violations):
            _print(f'KNOWN-FINDING: property={prop} {f["what"]} (replay={f["replay"]})')
        else:
            _print(f'note: listed finding {f["id"]} no longer reproduces')

    # violations: group by clause, minimise one per clause (at most 3), write replays
    n_viol = 0
    replay_paths = []
    suppressed = collections.Counter()
    for agg in parts:
        eng = engine_factory(agg['engine'])()
        by_clause: dict = {}
        for run, trace, vs in agg['violations']:
            v0 = vs[0]
            fid = next((f['id'] for f in findings if known_finding_matches(f, v0, trace)), None)
            if fid:
                suppressed[fid] += 1
                continue
            n_viol += 1
            by_clause.setdefault(v0['clause'], []).append((run, trace, v0))
        for clause, items in sorted(by_clause.items())[:3]:
            items.sort(key=lambda it: len(it[1].get('ops', [])))
            run, trace, v0 = items[0]
            viol = core.Violation(**v0)
            tests = 0
            if not args.no_minimise:
                trace, tests = core.minimise(eng, trace, prop, viol.key(), budget_s=45)
                res = eng.replay(trace, prop)
                viol = next((v for v in res.violations if v.key() == viol.key()), viol)
            path = core.write_replay(prop, eng, trace, viol, base_seed, run)
            replay_paths.append(path)
            _print(f'  {prop}/{clause}: {len(items)} failing run(s); run {run} minimised to {len(trace.get("ops", []))} op(s) '
                   f'in {tests} replays: {viol.msg}')
            _print(f'VIOLATION property={prop} replay={path}')

    wall = time.monotonic() - t0
    if not args.no_evidence:
        write_evidence(prop, args.tier, base_seed, parts, n_viol, suppressed, wall, replay_paths)
    if n_viol:
        return 1
    if errors or batch_errors:
        return 2
    _print(f'OK {prop}: no violation in {sum(a["runs"] for a in parts)} runs ({wall:.1f}s)')
    return 0


def write_evidence(prop, tier, base_seed, parts, n_viol, suppressed, wall, replay_paths):
    runs = sum(a['runs'] for a in parts)
    steps = sum(a['steps'] for a in parts)
    stats = collections.Counter()
    sigs = 0
    states = 0
    samples = []
    skipped = collections.Counter()
    engines = []
    known_hits = collections.Counter()
    for a in parts:
        stats.update({f'{k}': v for k, v in a['stats'].items()})
        sigs += len(a['history_sigs'])
        states += len(a['states'])
        samples.extend(core.trim_sample(s) for s in a['samples'][:2])
        skipped.update(a['skipped'])
        known_hits.update(a['known_hits'])
        eng = engine_factory(a['engine'])()
        d = eng.describe()
        d.update({'engine': a['engine'], 'runs': a['runs'], 'steps': a['steps'], 'wall_s': round(a['wall_s'], 2),
                  'runs_per_hour': int(a['runs'] / max(a['wall_s'], 1e-9) * 3600),
                  'batch_digest': a['batch_digest'], 'not_started_wall_budget': a['not_started']})
        engines.append(d)
    faults = {k[len('fault:'):]: v for k, v in stats.items() if k.startswith('fault:')}
    pairs = set()
    for a in parts:
        pairs |= a.get('pairs', set())
    kinds = {x for pr in pairs for x in pr.split('>')}
    payload = {
        'property_id': prop,
        'tier': tier,
        'seed': base_seed,
        'level': LEVEL[prop],
        'coverage': {
            'evaluations': runs,
            'distinct_nontrivial': sigs,
            'rule': ' / '.join(RULES.get(a['engine'], a['engine']) for a in parts),
            'samples': samples or [{'note': 'no non-trivial run in this batch'}],
            'simulated_steps': steps,
            'simulated_time': 'no clock exists in the system under test; time is the step counter',
            'distinct_abstract_states': states,
            'fault_kinds_injected': faults,
            'op_pair_coverage': {'distinct_consecutive_kind_pairs': len(pairs), 'distinct_kinds': len(kinds),
                                 'fraction_of_all_ordered_pairs': round(len(pairs) / max(1, len(kinds) ** 2), 3)},
            'reach_probes_and_op_counts': {k: v for k, v in sorted(stats.items()) if not k.startswith('fault:')},
            'precondition_skips': dict(skipped),
            'known_finding_hits_suppressed': dict(suppressed) | dict(known_hits),
            'engines': engines,
            'replays_written': replay_paths,
        },
        'assumptions': [
            'sampling, not proof: a clean batch is evidence proportional to the reach probes',
            'PYTHONHASHSEED fixed by ./check; PYTHONUTF8=1',
        ],
        'wall_s': round(wall, 2),
        'violations': n_viol,
    }
    core.write_evidence(prop, payload)


if __name__ == '__main__':
    sys.exit(main())
