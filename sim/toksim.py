"""toksim (C12): one token model under a history of value / raw_text / indent
assignments, free-standing or attached in a token store, re-lexed by the real
lexer (Parser.parse_token) after every step.

What is simulated is the assignment-history clause and its dependence on the
free/attached state (an attached token maintains store caches); the first step
of every history is a constructor call, so the from_value / from_raw_text
clauses are exercised as step 0.
"""
from __future__ import annotations

import collections
import datetime
import decimal
import random
from typing import Any, Optional

from . import core
from . import storesim
from .docbase import dec, enc, parser

core.use_repo()
from autobean_refactor import models  # noqa: E402
from autobean_refactor import token_store as ts  # noqa: E402

Violation = core.Violation
D = decimal.Decimal

EXOTIC = ['\x0c', '\x0b', '\x85', ' ', ' ', '\x1c', '\x1d', '\x1e', '\x00', ' ', '　', '﻿', '😀', 'é', 'é', 'ß', '中']
PLAIN = list('abcXYZ019 _-.,:;#*!@"\'\\/(){}[]<>~^&%$+=?|`') + ['\t', '  ']
FLAGS = list('*!&#?%PSTCURM')
BAD_RAW = {
    'Date': ['2020-02-31', '2021-13-01', '2020-00-10', 'garbage'],
    'Number': ['12..5', '1,2,3.4.5', 'abc', ''],
    'Bool': ['True', 'yes', ''],
    'BlockComment': ['no semicolon', '; ok\nnot a comment line'],
}
CLASSES = ['EscapedString', 'EscapedString', 'BlockComment', 'BlockComment', 'InlineComment', 'Date', 'Number', 'Bool',
           'Account', 'Currency', 'Tag', 'Link', 'MetaKey', 'TransactionFlag', 'PostingFlag', 'Indent']


def rich(rng: random.Random, extra: list, maxlen: int = 12, exotic_p: float = 0.25) -> str:
    n = rng.choice([0, 1, 1, 2, 3, 5, 8, maxlen])
    out = []
    for _ in range(n):
        r = rng.random()
        if r < exotic_p:
            out.append(rng.choice(EXOTIC))
        elif r < exotic_p + 0.2 and extra:
            out.append(rng.choice(extra))
        else:
            out.append(rng.choice(PLAIN))
    return ''.join(out)


def gen_value(rng: random.Random, cls: str) -> Any:
    if cls == 'EscapedString':
        return rich(rng, ['\n', '\r', '\r\n', '"', '\\', '\\"', '\\\\', '\\n'])
    if cls == 'BlockComment':
        lines = []
        for _ in range(rng.choice([1, 1, 2, 3, 4])):
            line = rich(rng, [';', ' ', '  ', '\t'], 8).replace('\r', '').replace('\n', '')
            lines.append(line)
        nl = rng.choice(['\n', '\n', '\r\n', '\r\r\n'])
        return nl.join(lines) if rng.random() < 0.8 else ''.join(l + rng.choice(['\n', '\r\n']) for l in lines)
    if cls == 'InlineComment':
        s = rich(rng, [';', '  ', '\t'], 10).replace('\r', '').replace('\n', '')
        return s.lstrip(' ')
    if cls == 'Date':
        r = rng.random()
        if r < 0.25:
            y = rng.choice([1, 9, 99, 100, 999, 1000, 9999])
        else:
            y = rng.randrange(1, 10000)
        m = rng.randrange(1, 13)
        d = rng.randrange(1, 29) if rng.random() < 0.8 else rng.choice([28, 29, 30, 31])
        try:
            return datetime.date(y, m, d)
        except ValueError:
            return datetime.date(y, m, 28)
    if cls == 'Number':
        r = rng.random()
        if r < 0.3:
            return D(rng.choice(['0', '1', '10.00', '0.5', '1234567.89', '0.000000001', '1E+3', '1E-7', '0E-10', '12345678901234567890.123',
                                 '100', '1.10', '7.', '0.0', '1E+20', '12345678901234567890.1234567890123', '0.1234567890123456789012345678901']))
        digits = ''.join(rng.choice('0123456789') for _ in range(rng.choice([1, 2, 5, 12, 29, 40])))
        exp = rng.choice([0, 0, -1, -3, -9, -12, 2, 5])
        return D(int(digits)).scaleb(exp)
    if cls == 'Bool':
        return rng.random() < 0.5
    if cls == 'Account':
        def part(first_chars):
            return rng.choice(first_chars) + ''.join(rng.choice(list('abcXYZ019-') + ['é', '中']) for _ in range(rng.choice([0, 1, 3, 6])))
        return part(list('AELIX') + ['Ä', '中']) + ''.join(':' + part(list('ABCX0123456789') + ['É']) for _ in range(rng.choice([1, 1, 2, 4])))
    if cls == 'Currency':
        body = ''.join(rng.choice("ABCXYZ0123456789'._-") for _ in range(rng.choice([0, 0, 1, 2, 5, 20])))
        if rng.random() < 0.8:
            return rng.choice('ABCXYZ') + body + rng.choice('ABCXYZ0123456789')
        return '/' + body + rng.choice('ABCXYZ') + (''.join(rng.choice("ABCXYZ0123456789'._-") for _ in range(rng.choice([0, 1, 3]))) + rng.choice('ABCXYZ0123456789') if rng.random() < 0.5 else '')
    if cls in ('Tag', 'Link'):
        return ''.join(rng.choice('abcXYZ0123456789-_/.') for _ in range(rng.choice([1, 1, 2, 5, 12])))
    if cls == 'MetaKey':
        return rng.choice('abcxyz') + ''.join(rng.choice('abcXYZ0123456789-_') for _ in range(rng.choice([1, 2, 5, 12])))
    if cls in ('TransactionFlag', 'PostingFlag'):
        return rng.choice(FLAGS)
    if cls == 'Indent':
        return ''.join(rng.choice([' ', ' ', '\t']) for _ in range(rng.choice([1, 2, 4, 8])))
    if cls == 'Ignored':
        return rng.choice(['*', ':', '#'] + FLAGS) + rich(rng, ['\t'], 10).replace('\n', '').replace('\r', '')
    raise core.HarnessError(cls)


def gen_lexeme(rng: random.Random, cls: str) -> str:
    """A lexeme the grammar can produce for the terminal, whose meaning is a valid value."""
    if cls == 'EscapedString':
        body = ''
        for _ in range(rng.choice([0, 1, 2, 4, 8])):
            r = rng.random()
            if r < 0.25:
                body += '\\' + rng.choice(['n', 't', 'r', 'f', 'b', '"', '\\', 'q', 'x', ' ', 'é'])
            elif r < 0.4:
                body += rng.choice(EXOTIC + ['\n', '\r\n', '\t'])
            else:
                body += rng.choice([c for c in PLAIN if c not in ('"', '\\')])
        return '"' + body + '"'
    if cls == 'BlockComment':
        ind = rng.choice(['', '', '  ', '\t', '    '])
        n = rng.choice([1, 1, 2, 3])
        nl = rng.choice(['\n', '\r\n', '\n'])
        def line_ind():
            if not ind or rng.random() < 0.6:
                return ind
            return rng.choice([' ', '  ', '\t', '      ', ind + ' '])      # continuation lines may be indented differently
        return nl.join(line_ind() + ';' + rich(rng, [';', ' '], 6).replace('\r', '').replace('\n', '') for _ in range(n))
    if cls == 'InlineComment':
        return ';' + rich(rng, [';', ' '], 8).replace('\r', '').replace('\n', '')
    if cls == 'Date':
        d = gen_value(rng, 'Date')
        y = f'{d.year:04d}' if rng.random() < 0.8 else f'{d.year:05d}'
        m = f'{d.month:02d}' if rng.random() < 0.7 else str(d.month)
        dd = f'{d.day:02d}' if rng.random() < 0.7 else str(d.day)
        s1, s2 = rng.choice('-/'), rng.choice('-/')
        return f'{y}{s1}{m}{s2}{dd}'
    if cls == 'Number':
        r = rng.random()
        if r < 0.4:
            head = str(rng.randrange(1, 1000)) + ''.join(',' + ''.join(rng.choice('0123456789') for _ in range(3)) for _ in range(rng.choice([1, 2, 3])))
        else:
            head = ''.join(rng.choice('0123456789') for _ in range(rng.choice([1, 2, 4, 9])))
        tail = rng.choice(['', '', '.', '.0', '.50', '.123456789'])
        return head + tail
    if cls == 'Bool':
        return rng.choice(['TRUE', 'FALSE'])
    if cls == 'TransactionFlag':
        return rng.choice(FLAGS + ['txn'])
    if cls == 'MetaKey':
        return gen_value(rng, cls) + ':'
    if cls == 'Tag':
        return '#' + gen_value(rng, cls)
    if cls == 'Link':
        return '^' + gen_value(rng, cls)
    return gen_value(rng, cls)


def _same_scale(a: Any, b: Any) -> bool:
    """A plain-notation decimal carries its scale: '2.50' and '2.5' are different lexemes and different
    Decimal objects (as_tuple), and a ledger's precision is read off them.  Values with a positive
    exponent have no plain-notation spelling of their own and are compared numerically only."""
    if isinstance(a, D) and isinstance(b, D) and a.is_finite() and b.is_finite() and b.as_tuple().exponent <= 0:
        return a.as_tuple() == b.as_tuple()
    return True


def check_token(tok: Any, cls: str, step: int, what: str) -> list[Violation]:
    V: list[Violation] = []
    T = type(tok)
    raw, val = tok.raw_text, tok.value
    # from_raw_text keeps the text verbatim and gives the same value
    try:
        again = T.from_raw_text(raw)
        if again.raw_text != raw:
            V.append(Violation('C12', 'from_raw_text_verbatim', step, f'{what}: from_raw_text({raw!r}).raw_text = {again.raw_text!r}'))
        elif again.value != val or type(again.value) != type(val) or not _same_scale(again.value, val):
            V.append(Violation('C12', 'value_raw_disagree', step, f'{what}: token says value {val!r} but its raw text {raw!r} means {again.value!r}'))
        elif cls == 'BlockComment' and again.indent != tok.indent:
            V.append(Violation('C12', 'value_raw_disagree', step, f'{what}: token says indent {tok.indent!r} but its raw text {raw!r} means {again.indent!r}'))
    except Exception as e:
        V.append(Violation('C12', 'raw_text_unparseable', step, f'{what}: own raw text {raw!r} rejected by from_raw_text: {type(e).__name__}: {e}'))
    if V or cls == 'Indent':
        return V   # INDENT needs look-ahead context and cannot be lexed in isolation
    try:
        lexed = parser().parse_token(raw, T)
    except Exception as e:
        V.append(Violation('C12', 'relex_fails', step, f'{what}: raw text {raw!r} (value {val!r}) is not lexed as one {cls}: {type(e).__name__}: {str(e)[:80]}'))
        return V
    if type(lexed) is not T or lexed.raw_text != raw:
        V.append(Violation('C12', 'relex_differs', step, f'{what}: raw text {raw!r} re-lexed as {lexed!r}'))
    elif lexed.value != val or not _same_scale(lexed.value, val):
        V.append(Violation('C12', 'relex_value', step, f'{what}: raw text {raw!r} re-lexes to value {lexed.value!r}, token says {val!r}'))
    return V


class TokSim(core.Engine):
    name = 'toksim'

    @core.stuck_guard
    def _execute(self, trace: dict, prop: str, rng: Optional[random.Random]) -> core.RunResult:
        knobs = trace['knobs']
        cls = knobs['cls']
        T = getattr(models, cls)
        storesim.set_load_factor(knobs['load_factor'])
        stats: collections.Counter = collections.Counter()
        log: list = [{'knobs': knobs, 'init': trace['init']}]
        res = core.RunResult(trace=trace, violations=[], stats=stats, log=log)
        init = trace['init']
        v0 = dec(init['v'])
        what0 = f'{cls}.{"from_value" if init["how"] == "value" else "from_raw_text"}({v0!r})'
        try:
            if init['how'] == 'value':
                tok = T.from_value(v0, indent=init.get('indent', '')) if cls == 'BlockComment' else T.from_value(v0)
                if tok.value != v0 or type(tok.value) != type(v0):
                    res.violations = [Violation('C12', 'from_value_value', 0, f'{what0}.value = {tok.value!r}')]
                    return res
            else:
                tok = T.from_raw_text(v0)
                if tok.raw_text != v0:
                    res.violations = [Violation('C12', 'from_raw_text_verbatim', 0, f'{what0}.raw_text = {tok.raw_text!r}')]
                    return res
        except Exception as e:
            res.violations = [Violation('C12', 'constructor_raises', 0, f'{what0} raised {type(e).__name__}: {e}')]
            return res
        stats[f'class:{cls}'] += 1
        stats[f'init:{init["how"]}'] += 1
        store = None
        ref: list = []
        if knobs['attached']:
            ref = [ts.Token(t) for t in knobs['before']] + [tok] + [ts.Token(t) for t in knobs['after']]
            store = ts.TokenStore.from_tokens(list(ref))
            stats['attached_runs'] += 1
        V = check_token(tok, cls, 0, what0)
        res.relevant_ops += 1
        sig = [cls, init['how']]
        ops = trace['ops']
        step = 1
        n_ops = knobs['n_ops']
        while not V:
            if rng is not None:
                if step > n_ops:
                    break
                kinds = ['value', 'value', 'raw'] + (['indent'] if cls == 'BlockComment' else []) + (['raw_bad'] if cls in BAD_RAW else [])
                k = rng.choice(kinds)
                if k == 'raw_bad':
                    op = {'op': 'raw_bad', 'v': rng.choice(BAD_RAW[cls])}
                    ops.append(op)
                    k = None
                if k is None:
                    pass
                elif k == 'value':
                    op = {'op': 'value', 'v': enc(gen_value(rng, cls))}
                    if cls == 'Number' and rng.random() < 0.15 and isinstance(tok.value, D) and tok.value.as_tuple().exponent <= 0 \
                            and len(tok.value.as_tuple().digits) < 40:
                        # the number the token holds now, written with one more decimal place
                        sign, digits, exp = tok.value.as_tuple()
                        op = {'op': 'value', 'v': enc(D((sign, digits + (0,), exp - 1)))}
                        stats['value_same_number_other_scale'] += 1
                elif k == 'raw':
                    op = {'op': 'raw', 'v': gen_lexeme(rng, cls)}
                else:
                    op = {'op': 'indent', 'v': rng.choice(['', ' ', '  ', '\t', '    ', ' \t'])}
                if k is not None:
                    ops.append(op)
            else:
                if step - 1 >= len(ops):
                    break
                op = ops[step - 1]
            v = dec(op['v'])
            what = f'{cls}.{op["op"]} = {v!r}'
            try:
                if op['op'] == 'raw_bad':
                    # a text the token type cannot represent: the assignment must be refused and leave no trace
                    old_raw, old_val = tok.raw_text, tok.value
                    try:
                        tok.raw_text = v
                        refused = False
                    except Exception:
                        refused = True
                    stats['fault:unrepresentable_raw_text'] += 1
                    if refused and (tok.raw_text != old_raw or tok.value != old_val):
                        V.append(Violation('C12', 'refused_raw_text_left_a_trace', step,
                                           f'{what} was refused but the token now holds raw text {tok.raw_text!r} / value {tok.value!r} (before: {old_raw!r} / {old_val!r})'))
                    elif not refused:
                        stats['unrepresentable_raw_text_accepted'] += 1
                elif op['op'] == 'value':
                    tok.value = v
                    if tok.value != v or type(tok.value) != type(v):
                        V.append(Violation('C12', 'value_readback', step, f'{what}: value reads {tok.value!r}'))
                elif op['op'] == 'raw':
                    tok.raw_text = v
                    if tok.raw_text != v:
                        V.append(Violation('C12', 'raw_text_readback', step, f'{what}: raw_text reads {tok.raw_text!r}'))
                else:
                    if cls != 'BlockComment':
                        step += 1
                        continue
                    old_value = tok.value
                    tok.indent = v
                    if tok.indent != v or tok.value != old_value:
                        V.append(Violation('C12', 'indent_readback', step, f'{what}: indent reads {tok.indent!r}, value {old_value!r} -> {tok.value!r}'))
            except Exception as e:
                V.append(Violation('C12', 'assignment_raises', step, f'{what} raised {type(e).__name__}: {e}'))
            stats[f'op:{op["op"]}'] += 1
            sig.append(op['op'])
            res.relevant_ops += 1
            if not V:
                V = check_token(tok, cls, step, what)
            if not V and store is not None:
                V = [x for x in storesim.check_store(store, ref, [], step, [(0, len(ref) - 1)], full=True)]
                if '\n' in tok.raw_text:
                    stats['attached_multiline_text'] += 1
            log.append({'n': step, 'op': op['op'], 'raw': core.sha(tok.raw_text)})
            step += 1
        res.violations = V
        res.history_sig = core.sha(' '.join(sig) + core.sha(tok.raw_text))
        res.states.add(core.sha(cls + tok.raw_text))
        return res

    def generate(self, rng: random.Random, prop: str, tier: str, run: int) -> core.RunResult:
        cls = rng.choice(CLASSES)
        how = rng.choice(['value', 'value', 'raw'])
        init: dict = {'how': how, 'v': enc(gen_value(rng, cls)) if how == 'value' else gen_lexeme(rng, cls)}
        if cls == 'BlockComment' and how == 'value':
            init['indent'] = rng.choice(['', '', '  ', '\t', '    '])
        attached = rng.random() < 0.5
        knobs = {'cls': cls, 'attached': attached, 'load_factor': rng.choice([2, 3, 4, 7, 1000]), 'n_ops': rng.choice([0, 1, 2, 3, 5, 10]),
                 'before': [rng.choice(storesim.TEXTS) for _ in range(rng.choice([0, 1, 3, 9]))] if attached else [],
                 'after': [rng.choice(storesim.TEXTS) for _ in range(rng.choice([0, 1, 3, 9]))] if attached else []}
        trace = {'knobs': knobs, 'init': init, 'ops': []}
        return self._execute(trace, prop, rng)

    def replay(self, trace: dict, prop: str) -> core.RunResult:
        import copy
        return self._execute(copy.deepcopy(trace), prop, None)

    def shrink_candidates(self, trace: dict):
        knobs = trace['knobs']
        if knobs['attached']:
            yield dict(trace, knobs=dict(knobs, attached=False, before=[], after=[]))
        # shorten string values
        # Only free-text values are shortened, and never by removing a CR or LF: a shrunk lexeme or a lone CR
        # would leave the token type's domain and the replay would then "fail" on any tree.
        free_text = knobs['cls'] in ('EscapedString', 'BlockComment', 'InlineComment')

        def shorter(v):
            if free_text and isinstance(v, str) and len(v) > 1:
                for i in range(len(v)):
                    if v[i] not in '\r\n' and not (knobs['cls'] == 'InlineComment' and i == 0 and v[1:2] == ' '):
                        yield v[:i] + v[i + 1:]
        if trace['init']['how'] == 'value':
            for cand in shorter(trace['init']['v']):
                yield dict(trace, init=dict(trace['init'], v=cand))
        for i, op in enumerate(trace['ops']):
            if op['op'] != 'value':
                continue
            for cand in shorter(op['v']):
                ops = list(trace['ops'])
                ops[i] = dict(op, v=cand)
                yield dict(trace, ops=ops)

    def describe(self) -> dict:
        return {'real_code': ['all token model classes', 'parser.Parser.parse_token (lark BasicLexer on the grammar terminals)', 'token_store'],
                'stubs': [], 'seams': ['load factor per run', 'free vs attached token']}
