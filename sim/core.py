"""Shared simulation infrastructure: seeds, run records, batch runner,
minimiser, replay files, known findings and evidence files.

One integer (VERIF_SEED) plus (property id, run index) decides everything in a
run.  Logging and oracles never draw from the run's PRNG and never read a clock.
"""
from __future__ import annotations

import collections
import concurrent.futures
import dataclasses
import faulthandler
import hashlib
import json
import multiprocessing
import os
import random
import sys
import time
import traceback
from typing import Any, Callable, Iterable, Optional

VERIF_DIR = os.path.dirname(os.path.dirname(os.path.abspath(__file__)))
REPO_DIR = os.environ.get('VERIF_REPO', '/repo')
OUT_DIR = os.path.join(VERIF_DIR, 'out')
REPLAY_DIR = os.path.join(OUT_DIR, 'replays')
EVIDENCE_DIR = os.path.join(VERIF_DIR, 'evidence')
KNOWN_FINDINGS = os.path.join(VERIF_DIR, 'known_findings.json')
GUARD = 'AUTOBEAN_REFACTOR_VERIF'


def use_repo() -> None:
    """Make sure autobean_refactor is imported from the tree under test."""
    if REPO_DIR not in sys.path[:1]:
        sys.path.insert(0, REPO_DIR)
    import autobean_refactor  # noqa
    here = os.path.realpath(os.path.dirname(autobean_refactor.__file__))
    want = os.path.realpath(os.path.join(REPO_DIR, 'autobean_refactor'))
    if here != want:
        raise HarnessError(f'autobean_refactor imported from {here}, expected {want}')


class HarnessError(Exception):
    """A defect of the machinery, never a verdict about the repository."""


class Skip(Exception):
    """A run whose precondition does not hold (counted, never an alarm)."""


@dataclasses.dataclass
class Violation:
    prop: str
    clause: str
    step: int
    msg: str

    def key(self) -> tuple[str, str]:
        return (self.prop, self.clause)

    def to_json(self) -> dict:
        return dataclasses.asdict(self)


class OracleFailure(Exception):
    """Raised by oracle code; carries one or more violations found at a step."""

    def __init__(self, violations: list[Violation]):
        super().__init__('; '.join(f'{v.prop}/{v.clause}: {v.msg}' for v in violations))
        self.violations = violations


def run_seed(base_seed: int, prop: str, run: int) -> int:
    h = hashlib.sha256(f'{base_seed}|{prop}|{run}'.encode()).digest()
    return int.from_bytes(h[:8], 'big')


def make_rng(base_seed: int, prop: str, run: int) -> random.Random:
    return random.Random(run_seed(base_seed, prop, run))


def sha(text: str) -> str:
    return hashlib.sha1(text.encode('utf-8', 'surrogatepass')).hexdigest()[:12]


@dataclasses.dataclass
class RunResult:
    """Everything one simulated run produced."""
    trace: dict                       # knobs, init, ops (concrete, replayable)
    violations: list[Violation]       # found at the first violating step (all properties)
    stats: collections.Counter
    log: list                         # event log (JSON-able); digest is over this
    history_sig: str = ''             # hash of op-kind/target-class sequence
    relevant_ops: int = 0             # ops relevant to the checked property
    states: set = dataclasses.field(default_factory=set)
    pairs: set = dataclasses.field(default_factory=set)       # consecutive operation-kind pairs executed
    foreign: list = dataclasses.field(default_factory=list)   # other properties' violations seen before the run ended
    skipped: Optional[str] = None     # precondition failure reason
    known_hits: list = dataclasses.field(default_factory=list)

    def digest(self) -> str:
        return hashlib.sha256(
            json.dumps(self.log, sort_keys=True, ensure_ascii=True, default=str).encode()).hexdigest()


class RunStuck(BaseException):
    """Raised by the per-run alarm inside whatever code is executing (BaseException: no `except Exception`
    of the harness or the library swallows it)."""


STUCK_AFTER_S = float(os.environ.get('VERIF_STUCK_AFTER_S', '120'))


def stuck_guard(fn):
    """Wraps an engine's _execute: a run that makes no progress for STUCK_AFTER_S seconds of wall time is
    interrupted.  If the interrupted frame is library code the run ends with the verdict `no_progress`
    for the running property (a loop that never ends is observable misbehaviour of any operation); if it
    is harness code it is a harness error.  Ordinary runs take milliseconds."""
    import functools
    import signal

    @functools.wraps(fn)
    def wrapper(self, trace, prop, *a, **kw):
        def on_alarm(signum, frame):
            raise RunStuck()
        try:
            old = signal.signal(signal.SIGALRM, on_alarm)
        except ValueError:          # not the main thread: no guard
            return fn(self, trace, prop, *a, **kw)
        signal.setitimer(signal.ITIMER_REAL, STUCK_AFTER_S)
        try:
            return fn(self, trace, prop, *a, **kw)
        except RunStuck as e:
            signal.setitimer(signal.ITIMER_REAL, 0)
            repo = os.path.realpath(REPO_DIR)
            here = os.path.realpath(VERIF_DIR)
            # the innermost frame that belongs to the library or to the harness (frames of the standard
            # library and of lark called from either do not count)
            frames = [f for f in traceback.extract_tb(e.__traceback__) if f.name != 'on_alarm' and os.path.isabs(f.filename)
                      and os.path.realpath(f.filename).startswith((repo + os.sep, here + os.sep))]
            inner = frames[-1] if frames else None
            if inner is not None and os.path.realpath(inner.filename).startswith(repo + os.sep):
                n = len(trace.get('ops', []))
                v = Violation(prop, 'no_progress', max(n - 1, 0),
                              f'operation {n} did not finish within {STUCK_AFTER_S:.0f} s: still inside {inner.name} '
                              f'({os.path.basename(inner.filename)}:{inner.lineno})')
                return RunResult(trace=trace, violations=[v], stats=collections.Counter({'no_progress': 1}),
                                 log=[{'no_progress': inner.name}], relevant_ops=1)
            where = f'{inner.name} ({os.path.basename(inner.filename)}:{inner.lineno})' if inner else '?'
            raise HarnessError(f'run made no progress for {STUCK_AFTER_S:.0f} s inside the harness: {where}')
        finally:
            signal.setitimer(signal.ITIMER_REAL, 0)
            signal.signal(signal.SIGALRM, old)
    return wrapper


class Engine:
    """Interface every engine implements."""
    name = 'engine'

    def generate(self, rng: random.Random, prop: str, tier: str, run: int) -> RunResult:
        raise NotImplementedError

    def replay(self, trace: dict, prop: str) -> RunResult:
        raise NotImplementedError

    # hooks for the minimiser
    def shrink_candidates(self, trace: dict) -> Iterable[dict]:
        """Engine specific simplifications of a trace other than dropping ops."""
        return ()

    def describe(self) -> dict:
        return {}


# --------------------------------------------------------------------------
# known findings

def load_known_findings() -> list[dict]:
    if not os.path.exists(KNOWN_FINDINGS):
        return []
    with open(KNOWN_FINDINGS) as f:
        data = json.load(f)
    return data.get('findings', [])


def open_findings(prop: Optional[str] = None) -> list[dict]:
    return [f for f in load_known_findings()
            if f.get('status') == 'open' and (prop is None or f['property'] == prop)]


# --------------------------------------------------------------------------
# minimiser (delta debugging over the recorded concrete op list)

def _same_failure(res: RunResult, key: tuple[str, str]) -> bool:
    return any(v.key() == key for v in res.violations)


def minimise(engine: Engine, trace: dict, prop: str, key: tuple[str, str],
             budget_s: float = 60.0, max_tests: int = 600) -> tuple[dict, int]:
    """ddmin on trace['ops'], then engine specific shrinking.  Returns the
    smallest trace found that still fails with the same (property, clause)."""
    t0 = time.monotonic()
    tests = 0

    def fails(t: dict) -> bool:
        nonlocal tests
        tests += 1
        try:
            res = engine.replay(t, prop)
        except HarnessError:
            return False
        except Exception:
            return False
        return _same_failure(res, key)

    def out_of_budget() -> bool:
        return time.monotonic() - t0 > budget_s or tests > max_tests

    best = trace
    ops = list(trace.get('ops', []))
    # cut everything after the violating step first
    n = 2
    while len(ops) >= 2 and not out_of_budget():
        chunk = max(1, len(ops) // n)
        reduced = False
        for i in range(0, len(ops), chunk):
            cand_ops = ops[:i] + ops[i + chunk:]
            cand = dict(best, ops=cand_ops)
            if fails(cand):
                ops = cand_ops
                best = cand
                n = max(n - 1, 2)
                reduced = True
                break
            if out_of_budget():
                break
        if not reduced:
            if chunk == 1:
                break
            n = min(len(ops), n * 2)
    # engine specific shrinking, to a fixpoint
    progress = True
    while progress and not out_of_budget():
        progress = False
        for cand in engine.shrink_candidates(best):
            if out_of_budget():
                break
            if fails(cand):
                best = cand
                progress = True
                break
    return best, tests


# --------------------------------------------------------------------------
# replay files

def write_replay(prop: str, engine: Engine, trace: dict, violation: Violation,
                 base_seed: int, run: int, tag: str = '') -> str:
    os.makedirs(REPLAY_DIR, exist_ok=True)
    path = os.path.join(REPLAY_DIR, f'{prop}-{base_seed}-{run}{tag}.json')
    res = engine.replay(trace, prop)
    payload = {
        'property': prop,
        'engine': engine.name,
        'seed': base_seed,
        'run': run,
        'pythonhashseed': os.environ.get('PYTHONHASHSEED'),
        'expected': violation.to_json(),
        'digest': res.digest(),
        'trace': trace,
    }
    with open(path, 'w') as f:
        json.dump(payload, f, indent=1, sort_keys=True, default=str)
    return path


def read_replay(path: str) -> dict:
    with open(path) as f:
        return json.load(f)


# --------------------------------------------------------------------------
# batch runner

@dataclasses.dataclass
class BatchConfig:
    prop: str
    tier: str
    base_seed: int
    runs: int
    workers: int = 16
    wall_budget_s: float = 600.0
    run_timeout_s: float = 300.0
    chunk: int = 8


_ENGINE_FACTORY: Optional[Callable[[], Engine]] = None
_ENGINE: Optional[Engine] = None


def _worker_engine() -> Engine:
    global _ENGINE
    if _ENGINE is None:
        assert _ENGINE_FACTORY is not None
        _ENGINE = _ENGINE_FACTORY()
    return _ENGINE


def _run_chunk(args: tuple) -> dict:
    prop, tier, base_seed, indices, run_timeout_s, keep_samples = args
    engine = _worker_engine()
    out = {
        'runs': 0, 'stats': collections.Counter(), 'violations': [], 'digests': [],
        'history_sigs': {}, 'states': set(), 'samples': [], 'skipped': collections.Counter(),
        'errors': [], 'steps': 0, 'known_hits': collections.Counter(), 'pairs': set(),
    }
    for run in indices:
        rng = make_rng(base_seed, prop, run)
        faulthandler.dump_traceback_later(run_timeout_s, exit=True)
        try:
            res = engine.generate(rng, prop, tier, run)
        except HarnessError as e:
            out['errors'].append((run, f'HarnessError: {e}\n{traceback.format_exc()}'))
            continue
        except Exception as e:  # bug in the harness: classified apart from violations
            out['errors'].append((run, f'{type(e).__name__}: {e}\n{traceback.format_exc()}'))
            continue
        finally:
            faulthandler.cancel_dump_traceback_later()
        out['runs'] += 1
        out['stats'].update(res.stats)
        out['digests'].append((run, res.digest()))
        out['steps'] += len(res.trace.get('ops', []))
        if res.skipped:
            out['skipped'][res.skipped] += 1
            continue
        for hit in res.known_hits:
            out['known_hits'][hit] += 1
        if res.relevant_ops:
            out['history_sigs'][res.history_sig] = out['history_sigs'].get(res.history_sig, 0) + 1
        out['states'].update(res.states)
        out['pairs'].update(res.pairs)
        if len(out['samples']) < keep_samples and res.relevant_ops:
            out['samples'].append({'run': run, 'trace': res.trace})
        mine = [v for v in res.violations if v.prop == prop]
        foreign = [v for v in res.violations if v.prop != prop] + list(res.foreign)
        if mine:
            out['violations'].append((run, res.trace, [v.to_json() for v in mine]))
        elif foreign:
            out['stats']['ended_by_foreign_violation'] += 1
            for v in foreign:
                out['stats'][f'foreign:{v.prop}/{v.clause}'] += 1
    return out


def run_batch(engine_factory: Callable[[], Engine], cfg: BatchConfig) -> dict:
    global _ENGINE_FACTORY, _ENGINE
    _ENGINE_FACTORY = engine_factory
    _ENGINE = None
    t0 = time.monotonic()
    indices = list(range(cfg.runs))
    chunks = [indices[i:i + cfg.chunk] for i in range(0, len(indices), cfg.chunk)]
    agg = {
        'runs': 0, 'stats': collections.Counter(), 'violations': [], 'digests': [],
        'history_sigs': collections.Counter(), 'states': set(), 'samples': [],
        'skipped': collections.Counter(), 'errors': [], 'steps': 0,
        'known_hits': collections.Counter(), 'not_started': 0, 'pairs': set(),
    }

    def merge(out: dict) -> None:
        agg['runs'] += out['runs']
        agg['stats'].update(out['stats'])
        agg['violations'].extend(out['violations'])
        agg['digests'].extend(out['digests'])
        agg['history_sigs'].update(out['history_sigs'])
        agg['states'].update(out['states'])
        agg['pairs'].update(out['pairs'])
        if len(agg['samples']) < 3:
            agg['samples'].extend(out['samples'][:3 - len(agg['samples'])])
        agg['skipped'].update(out['skipped'])
        agg['errors'].extend(out['errors'])
        agg['steps'] += out['steps']
        agg['known_hits'].update(out['known_hits'])

    if cfg.workers <= 1:
        for ch in chunks:
            if time.monotonic() - t0 > cfg.wall_budget_s:
                agg['not_started'] += len(ch)
                continue
            merge(_run_chunk((cfg.prop, cfg.tier, cfg.base_seed, ch, cfg.run_timeout_s, 1)))
    else:
        ctx = multiprocessing.get_context('fork')
        with concurrent.futures.ProcessPoolExecutor(max_workers=cfg.workers, mp_context=ctx) as ex:
            pending = collections.deque(chunks)
            futs: dict = {}
            try:
                while pending or futs:
                    while pending and len(futs) < cfg.workers * 2:
                        ch = pending.popleft()
                        if time.monotonic() - t0 > cfg.wall_budget_s:
                            agg['not_started'] += len(ch)
                            continue
                        fut = ex.submit(_run_chunk, (cfg.prop, cfg.tier, cfg.base_seed, ch,
                                                     cfg.run_timeout_s, 1))
                        futs[fut] = ch
                    if not futs:
                        break
                    done, _ = concurrent.futures.wait(
                        futs, timeout=cfg.run_timeout_s * cfg.chunk + 60,
                        return_when=concurrent.futures.FIRST_COMPLETED)
                    if not done:
                        raise HarnessError('worker stalled')
                    for fut in done:
                        ch = futs.pop(fut)
                        try:
                            merge(fut.result())
                        except concurrent.futures.process.BrokenProcessPool as e:
                            raise HarnessError(f'worker died on runs {ch}: {e}')
            except HarnessError:
                for fut in futs:
                    fut.cancel()
                raise
    agg['digests'].sort()
    agg['violations'].sort(key=lambda v: v[0])
    agg['wall_s'] = time.monotonic() - t0
    h = hashlib.sha256()
    for run, d in agg['digests']:
        h.update(f'{run}:{d}\n'.encode())
    agg['batch_digest'] = h.hexdigest()
    return agg


# --------------------------------------------------------------------------
# evidence

def _jsonable(o: Any) -> Any:
    if isinstance(o, (set, frozenset)):
        return sorted(map(str, o))
    if isinstance(o, collections.Counter):
        return dict(sorted(o.items()))
    if isinstance(o, bytes):
        return o.decode('latin1')
    return str(o)


def trim_sample(sample: dict, max_ops: int = 12, max_text: int = 600) -> dict:
    t = json.loads(json.dumps(sample, default=_jsonable))
    tr = t.get('trace', t)
    ops = tr.get('ops')
    if isinstance(ops, list) and len(ops) > max_ops:
        tr['ops'] = ops[:max_ops] + [f'... {len(ops) - max_ops} more ops']
    for k, v in list(tr.items()):
        if isinstance(v, str) and len(v) > max_text:
            tr[k] = v[:max_text] + f'... ({len(v)} chars)'
    return t


def write_evidence(prop: str, payload: dict) -> str:
    os.makedirs(EVIDENCE_DIR, exist_ok=True)
    path = os.path.join(EVIDENCE_DIR, f'{prop}.json')
    tmp = path + '.tmp'
    with open(tmp, 'w') as f:
        json.dump(payload, f, indent=1, sort_keys=True, default=_jsonable)
    os.replace(tmp, path)
    return path
