#!/bin/bash
# Offline setup: nothing to build; verify the interpreter and imports, then a
# short determinism self-test of each engine.
cd "$(dirname "$0")" || exit 2
PY=/venv/bin/python
"$PY" -c "import lark, typing_extensions" || { echo "missing runtime deps in /venv"; exit 2; }
mkdir -p out/replays evidence
exec "$PY" -B tools/selftest.py --quick
